// Stub of <ceres/autodiff_cost_function.h>: declaration only.
#pragma once
#include <memory>
namespace ceres { template <typename CostFunctor, int kNumResiduals, int... Ns> class AutoDiffCostFunction; }
