// Stub of <ceres/autodiff_local_parameterization.h>: declaration only.
#pragma once
namespace ceres { template <typename Functor, int kGlobalSize, int kLocalSize> class AutoDiffLocalParameterization; }
