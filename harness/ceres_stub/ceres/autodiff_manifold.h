// Stub of <ceres/autodiff_manifold.h>: declaration only, so that manif/ceres/ceres_utils.h parses.
// The make_*_autodiff helpers of manif are never instantiated by the harness (out of reach, see C12 assumptions).
#pragma once
namespace ceres { template <typename Functor, int kAmbientSize, int kTangentSize> class AutoDiffManifold; }
