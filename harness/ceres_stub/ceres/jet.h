// Minimal work-alike of ceres::Jet<T, N> (forward-mode dual number: value `a`, N partials `v`) for the
// verification harness.  The real Ceres is not installed; this header provides exactly the interface
// that manif's include/manif/ceres/*.h and the library's templated math rely on: arithmetic, comparisons
// on the scalar part, the <cmath> functions found by ADL, Eigen NumTraits / ScalarBinaryOpTraits.
// The arithmetic follows ceres/jet.h (e.g. f/g is computed as f * (1/g.a), as Ceres does), so the primal
// part may differ from plain double arithmetic by a rounding error in divisions -- this is why C12
// compares primal parts at 4u rather than bit for bit.
#pragma once
#include <Eigen/Core>
#include <cmath>
#include <limits>
#include <ostream>
namespace ceres {
template <typename T, int N> struct Jet {
  enum { DIMENSION = N };
  typedef T Scalar;
  typedef Eigen::Matrix<T, N, 1, Eigen::DontAlign> V;   // as in Ceres: Jets live in plain arrays
  T a; V v;
  Jet() : a(), v(V::Zero()) {}
  Jet(const T& x) : a(x), v(V::Zero()) {}                       // NOLINT implicit as in Ceres
  Jet(int x) : a(T(x)), v(V::Zero()) {}                          // NOLINT
  Jet(const T& x, int k) : a(x), v(V::Zero()) { v[k] = T(1); }
  template <typename D> Jet(const T& x, const Eigen::DenseBase<D>& d) : a(x), v(d) {}
  Jet& operator+=(const Jet& y) { a += y.a; v += y.v; return *this; }
  Jet& operator-=(const Jet& y) { a -= y.a; v -= y.v; return *this; }
  Jet& operator*=(const Jet& y) { *this = *this * y; return *this; }
  Jet& operator/=(const Jet& y) { *this = *this / y; return *this; }
  Jet& operator+=(const T& s) { a += s; return *this; }
  Jet& operator-=(const T& s) { a -= s; return *this; }
  Jet& operator*=(const T& s) { a *= s; v *= s; return *this; }
  Jet& operator/=(const T& s) { T i = T(1) / s; a *= i; v *= i; return *this; }
};
#define VJ_T template <typename T, int N> inline
#define VJ_J Jet<T, N>
VJ_T VJ_J operator+(const VJ_J& f) { return f; }
VJ_T VJ_J operator-(const VJ_J& f) { return VJ_J(-f.a, -f.v); }
VJ_T VJ_J operator+(const VJ_J& f, const VJ_J& g) { return VJ_J(f.a + g.a, f.v + g.v); }
VJ_T VJ_J operator-(const VJ_J& f, const VJ_J& g) { return VJ_J(f.a - g.a, f.v - g.v); }
VJ_T VJ_J operator*(const VJ_J& f, const VJ_J& g) { return VJ_J(f.a * g.a, f.a * g.v + f.v * g.a); }
#ifdef VERIF_JET_EXACT_DIV   // diagnostic variant: primal quotient rounded once, as plain T arithmetic does
VJ_T VJ_J operator/(const VJ_J& f, const VJ_J& g) { const T gi = T(1) / g.a; const T q = f.a / g.a; return VJ_J(q, (f.v - q * g.v) * gi); }
#else                        // as ceres/jet.h: f * (1/g)
VJ_T VJ_J operator/(const VJ_J& f, const VJ_J& g) { const T gi = T(1) / g.a; const T q = f.a * gi; return VJ_J(q, (f.v - q * g.v) * gi); }
#endif
VJ_T VJ_J operator+(const VJ_J& f, T s) { return VJ_J(f.a + s, f.v); }
VJ_T VJ_J operator+(T s, const VJ_J& f) { return VJ_J(s + f.a, f.v); }
VJ_T VJ_J operator-(const VJ_J& f, T s) { return VJ_J(f.a - s, f.v); }
VJ_T VJ_J operator-(T s, const VJ_J& f) { return VJ_J(s - f.a, -f.v); }
VJ_T VJ_J operator*(const VJ_J& f, T s) { return VJ_J(f.a * s, f.v * s); }
VJ_T VJ_J operator*(T s, const VJ_J& f) { return VJ_J(s * f.a, f.v * s); }
#ifdef VERIF_JET_EXACT_DIV
VJ_T VJ_J operator/(const VJ_J& f, T s) { const T i = T(1) / s; return VJ_J(f.a / s, f.v * i); }
#else
VJ_T VJ_J operator/(const VJ_J& f, T s) { const T i = T(1) / s; return VJ_J(f.a * i, f.v * i); }
#endif
VJ_T VJ_J operator/(T s, const VJ_J& f) { const T m = -s / (f.a * f.a); return VJ_J(s / f.a, f.v * m); }
#define VJ_CMP(op) \
  VJ_T bool operator op(const VJ_J& f, const VJ_J& g) { return f.a op g.a; } \
  VJ_T bool operator op(const VJ_J& f, T g) { return f.a op g; } \
  VJ_T bool operator op(T f, const VJ_J& g) { return f op g.a; }
VJ_CMP(<) VJ_CMP(<=) VJ_CMP(>) VJ_CMP(>=) VJ_CMP(==) VJ_CMP(!=)
#undef VJ_CMP
VJ_T VJ_J abs(const VJ_J& f) { return f.a < T(0) ? -f : f; }
VJ_T VJ_J fabs(const VJ_J& f) { return f.a < T(0) ? -f : f; }
VJ_T VJ_J abs2(const VJ_J& f) { return f * f; }
VJ_T VJ_J sqrt(const VJ_J& f) { const T s = std::sqrt(f.a); return VJ_J(s, f.v * (T(1) / (T(2) * s))); }
VJ_T VJ_J cbrt(const VJ_J& f) { const T s = std::cbrt(f.a); return VJ_J(s, f.v * (T(1) / (T(3) * s * s))); }
VJ_T VJ_J exp(const VJ_J& f) { const T e = std::exp(f.a); return VJ_J(e, e * f.v); }
VJ_T VJ_J log(const VJ_J& f) { return VJ_J(std::log(f.a), f.v * (T(1) / f.a)); }
VJ_T VJ_J sin(const VJ_J& f) { return VJ_J(std::sin(f.a), std::cos(f.a) * f.v); }
VJ_T VJ_J cos(const VJ_J& f) { return VJ_J(std::cos(f.a), -std::sin(f.a) * f.v); }
VJ_T VJ_J tan(const VJ_J& f) { const T t = std::tan(f.a); return VJ_J(t, (T(1) + t * t) * f.v); }
VJ_T VJ_J asin(const VJ_J& f) { return VJ_J(std::asin(f.a), (T(1) / std::sqrt(T(1) - f.a * f.a)) * f.v); }
VJ_T VJ_J acos(const VJ_J& f) { return VJ_J(std::acos(f.a), (-T(1) / std::sqrt(T(1) - f.a * f.a)) * f.v); }
VJ_T VJ_J atan(const VJ_J& f) { return VJ_J(std::atan(f.a), (T(1) / (T(1) + f.a * f.a)) * f.v); }
// atan2(g, f): y = g, x = f
VJ_T VJ_J atan2(const VJ_J& g, const VJ_J& f) { const T d = T(1) / (f.a * f.a + g.a * g.a); return VJ_J(std::atan2(g.a, f.a), d * (-g.a * f.v + f.a * g.v)); }
VJ_T VJ_J pow(const VJ_J& f, T p) { const T t = std::pow(f.a, p - T(1)); return VJ_J(t * f.a, (p * t) * f.v); }
VJ_T VJ_J pow(const VJ_J& f, int p) { return pow(f, T(p)); }
VJ_T VJ_J hypot(const VJ_J& x, const VJ_J& y) { const T h = std::hypot(x.a, y.a); return VJ_J(h, (x.a / h) * x.v + (y.a / h) * y.v); }
VJ_T VJ_J floor(const VJ_J& f) { return VJ_J(std::floor(f.a)); }
VJ_T VJ_J ceil(const VJ_J& f) { return VJ_J(std::ceil(f.a)); }
VJ_T bool isfinite(const VJ_J& f) { if (!std::isfinite(f.a)) return false; for (int i = 0; i < N; ++i) if (!std::isfinite(f.v[i])) return false; return true; }
VJ_T bool isnan(const VJ_J& f) { if (std::isnan(f.a)) return true; for (int i = 0; i < N; ++i) if (std::isnan(f.v[i])) return true; return false; }
VJ_T bool isinf(const VJ_J& f) { if (std::isinf(f.a)) return true; for (int i = 0; i < N; ++i) if (std::isinf(f.v[i])) return true; return false; }
VJ_T std::ostream& operator<<(std::ostream& s, const VJ_J& z) { s << "[" << z.a << " ; "; for (int i = 0; i < N; ++i) s << (i ? ", " : "") << z.v[i]; return s << "]"; }
#undef VJ_T
#undef VJ_J
}  // namespace ceres
namespace Eigen {
template <typename T, int N> struct NumTraits<ceres::Jet<T, N>> {
  typedef ceres::Jet<T, N> Real; typedef ceres::Jet<T, N> NonInteger; typedef ceres::Jet<T, N> Nested; typedef ceres::Jet<T, N> Literal;
  static Real dummy_precision() { return Real(1e-12); }
  static Real epsilon() { return Real(std::numeric_limits<T>::epsilon()); }
  static int digits10() { return NumTraits<T>::digits10(); }
  static Real highest() { return Real((std::numeric_limits<T>::max)()); }
  static Real lowest() { return Real(-(std::numeric_limits<T>::max)()); }
  enum { IsComplex = 0, IsInteger = 0, IsSigned = 1, ReadCost = 1, AddCost = 1, MulCost = 3, HasFloatingPoint = 1, RequireInitialization = 1 };
  template <bool Vectorized> struct Div { enum { AVX = false, Cost = 3 }; };
};
template <typename BinaryOp, typename T, int N> struct ScalarBinaryOpTraits<ceres::Jet<T, N>, T, BinaryOp> { typedef ceres::Jet<T, N> ReturnType; };
template <typename BinaryOp, typename T, int N> struct ScalarBinaryOpTraits<T, ceres::Jet<T, N>, BinaryOp> { typedef ceres::Jet<T, N> ReturnType; };
}  // namespace Eigen
