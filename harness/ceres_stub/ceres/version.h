// Stub of <ceres/version.h> for the verification harness (the real Ceres is not installed).
#pragma once
#define CERES_VERSION_MAJOR 2
#define CERES_VERSION_MINOR 2
#define CERES_VERSION_REVISION 0
