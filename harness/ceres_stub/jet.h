#pragma once
#include <Eigen/Core>
#include <cmath>
namespace ceres {
template <typename T, int N> struct Jet {
  T a; Eigen::Matrix<T, N, 1> v;
  Jet() : a(), v(Eigen::Matrix<T,N,1>::Zero()) {}
  Jet(const T& x) : a(x), v(Eigen::Matrix<T,N,1>::Zero()) {}
  Jet(int x) : a(T(x)), v(Eigen::Matrix<T,N,1>::Zero()) {}
  Jet(const T& x, int k) : a(x), v(Eigen::Matrix<T,N,1>::Zero()) { v[k] = T(1); }
  Jet(const T& x, const Eigen::Matrix<T,N,1>& d) : a(x), v(d) {}
  Jet& operator+=(const Jet& y){ a+=y.a; v+=y.v; return *this; } Jet& operator-=(const Jet& y){ a-=y.a; v-=y.v; return *this; }
  Jet& operator*=(const Jet& y){ *this = *this * y; return *this; } Jet& operator/=(const Jet& y){ *this = *this / y; return *this; }
};
#define JB template <typename T, int N> inline
JB Jet<T,N> operator+(const Jet<T,N>& f){ return f; } JB Jet<T,N> operator-(const Jet<T,N>& f){ return Jet<T,N>(-f.a, -f.v); }
JB Jet<T,N> operator+(const Jet<T,N>& f,const Jet<T,N>& g){ return Jet<T,N>(f.a+g.a, f.v+g.v); } JB Jet<T,N> operator-(const Jet<T,N>& f,const Jet<T,N>& g){ return Jet<T,N>(f.a-g.a, f.v-g.v); }
JB Jet<T,N> operator*(const Jet<T,N>& f,const Jet<T,N>& g){ return Jet<T,N>(f.a*g.a, f.a*g.v + f.v*g.a); }
JB Jet<T,N> operator/(const Jet<T,N>& f,const Jet<T,N>& g){ T gi = T(1)/g.a; T q = f.a*gi; return Jet<T,N>(q, (f.v - q*g.v)*gi); }
JB Jet<T,N> operator+(const Jet<T,N>& f,T s){ return Jet<T,N>(f.a+s,f.v);} JB Jet<T,N> operator+(T s,const Jet<T,N>& f){ return Jet<T,N>(f.a+s,f.v);}
JB Jet<T,N> operator-(const Jet<T,N>& f,T s){ return Jet<T,N>(f.a-s,f.v);} JB Jet<T,N> operator-(T s,const Jet<T,N>& f){ return Jet<T,N>(s-f.a,-f.v);}
JB Jet<T,N> operator*(const Jet<T,N>& f,T s){ return Jet<T,N>(f.a*s,f.v*s);} JB Jet<T,N> operator*(T s,const Jet<T,N>& f){ return Jet<T,N>(f.a*s,f.v*s);}
JB Jet<T,N> operator/(const Jet<T,N>& f,T s){ return Jet<T,N>(f.a/s,f.v/s);} JB Jet<T,N> operator/(T s,const Jet<T,N>& f){ return Jet<T,N>(s)/f; }
#define CMP(op) JB bool operator op(const Jet<T,N>& f,const Jet<T,N>& g){ return f.a op g.a; } JB bool operator op(const Jet<T,N>& f,T g){ return f.a op g; } JB bool operator op(T f,const Jet<T,N>& g){ return f op g.a; }
CMP(<) CMP(<=) CMP(>) CMP(>=) CMP(==) CMP(!=)
JB Jet<T,N> abs(const Jet<T,N>& f){ return f.a < T(0) ? -f : f; } JB Jet<T,N> sqrt(const Jet<T,N>& f){ T s=std::sqrt(f.a); return Jet<T,N>(s, f.v/(T(2)*s)); }
JB Jet<T,N> sin(const Jet<T,N>& f){ return Jet<T,N>(std::sin(f.a), std::cos(f.a)*f.v);} JB Jet<T,N> cos(const Jet<T,N>& f){ return Jet<T,N>(std::cos(f.a), -std::sin(f.a)*f.v);}
JB Jet<T,N> atan2(const Jet<T,N>& g,const Jet<T,N>& f){ T d = T(1)/(f.a*f.a+g.a*g.a); return Jet<T,N>(std::atan2(g.a,f.a), d*(-g.a*f.v + f.a*g.v)); }
JB Jet<T,N> acos(const Jet<T,N>& f){ return Jet<T,N>(std::acos(f.a), -T(1)/std::sqrt(T(1)-f.a*f.a)*f.v);} JB Jet<T,N> tan(const Jet<T,N>& f){ T t=std::tan(f.a); return Jet<T,N>(t,(T(1)+t*t)*f.v);}
JB bool isfinite(const Jet<T,N>& f){ return std::isfinite(f.a) && f.v.allFinite(); } JB bool isnan(const Jet<T,N>& f){ return std::isnan(f.a);} JB Jet<T,N> abs2(const Jet<T,N>& f){ return f*f; }
}
namespace Eigen { template <typename T, int N> struct NumTraits<ceres::Jet<T,N>> { typedef ceres::Jet<T,N> Real; typedef ceres::Jet<T,N> NonInteger; typedef ceres::Jet<T,N> Nested; typedef ceres::Jet<T,N> Literal;
  static ceres::Jet<T,N> dummy_precision(){ return ceres::Jet<T,N>(1e-12);} static Real epsilon(){ return Real(std::numeric_limits<T>::epsilon()); } static int digits10(){ return NumTraits<T>::digits10(); } static Real highest(){ return Real(std::numeric_limits<T>::max()); } static Real lowest(){ return Real(-std::numeric_limits<T>::max()); }
  enum { IsComplex=0, IsInteger=0, IsSigned=1, ReadCost=1, AddCost=1, MulCost=3, HasFloatingPoint=1, RequireInitialization=1 }; };
  template <typename BinaryOp, typename T, int N> struct ScalarBinaryOpTraits<ceres::Jet<T,N>, T, BinaryOp> { typedef ceres::Jet<T,N> ReturnType; };
  template <typename BinaryOp, typename T, int N> struct ScalarBinaryOpTraits<T, ceres::Jet<T,N>, BinaryOp> { typedef ceres::Jet<T,N> ReturnType; }; }
