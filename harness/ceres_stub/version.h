#pragma once
#define CERES_VERSION_MAJOR 2
#define CERES_VERSION_MINOR 2
