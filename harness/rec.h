// Common recorder support: ndjson event writer (IEEE bit patterns as two int32 halves),
// group descriptors, and stratum samplers.  No tolerance or expected value lives here: the
// recorder only calls manif and writes down what went in and what came out.
#pragma once
#include <manif/manif.h>
#include <cstdio>
#include <cstring>
#include <cstdint>
#include <cmath>
#include <random>
#include <string>
#include <vector>
#include <sstream>
#include <fstream>
#include <iostream>
#include <exception>
#include <unistd.h>

namespace rec {

// ---------------------------------------------------------------------------------------------
// output
struct Out {
  FILE* f = nullptr;
  bool first = true;
  long n = 0;
  void open(const char* path) { f = std::fopen(path, "w"); if (!f) { std::perror(path); std::exit(3); } }
  void close() { if (f) std::fclose(f); f = nullptr; }
  void begin(const char* e) { std::fprintf(f, "{\"e\":\"%s\"", e); }
  void end() { std::fputs("}\n", f); ++n; }
  void key(const char* k) { std::fprintf(f, ",\"%s\":", k); }
  void str(const char* k, const std::string& v) { key(k); std::fprintf(f, "\"%s\"", v.c_str()); }
  void raw(const char* k, const std::string& v) { key(k); std::fputs(v.c_str(), f); }
  void num(const char* k, long v) { key(k); std::fprintf(f, "%ld", v); }
  void bits(double d) {
    uint64_t b; std::memcpy(&b, &d, 8);
    std::fprintf(f, "[%d,%d]", (int32_t)(b >> 32), (int32_t)(b & 0xffffffffu));
  }
  // scalars are widened exactly to double (float -> double is exact)
  template <class S> void sc(const char* k, S v) { key(k); bits((double)v); }
  template <class V> void vec(const char* k, const V& v) {
    key(k); std::fputc('[', f);
    for (int i = 0; i < v.size(); ++i) { if (i) std::fputc(',', f); bits((double)v(i)); }
    std::fputc(']', f);
  }
  template <class M> void mat(const char* k, const M& m) {
    key(k); std::fputc('[', f);
    for (int i = 0; i < m.rows(); ++i) {
      if (i) std::fputc(',', f); std::fputc('[', f);
      for (int j = 0; j < m.cols(); ++j) { if (j) std::fputc(',', f); bits((double)m(i, j)); }
      std::fputc(']', f);
    }
    std::fputc(']', f);
  }
};

inline Out& out() { static Out o; return o; }

inline void install_terminate() {
  std::set_terminate([] {
    Out& o = out();
    if (o.f) { std::fprintf(o.f, "{\"e\":\"terminate\"}\n"); std::fflush(o.f); }
    _exit(0);
  });
}

// ---------------------------------------------------------------------------------------------
// group information
template <class G> struct Info;   // name(), rot kind/offsets
enum RotKind { NONE = 0, COMPLEX = 1, QUAT = 2 };

#define REC_INFO(TT, NAME, RK, COFF, AOFF, ADIM)                                   \
  template <class S> struct Info<manif::TT<S>> {                                   \
    static std::string name() { return "{\"k\":\"" NAME "\"}"; }                   \
    static constexpr RotKind rot = RK; static constexpr int coff = COFF;           \
    static constexpr int aoff = AOFF; static constexpr int adim = ADIM; };
REC_INFO(SO2, "SO2", COMPLEX, 0, 0, 1)
REC_INFO(SE2, "SE2", COMPLEX, 2, 2, 1)
REC_INFO(SO3, "SO3", QUAT, 0, 0, 3)
REC_INFO(SE3, "SE3", QUAT, 3, 3, 3)
REC_INFO(SE_2_3, "SE_2_3", QUAT, 3, 3, 3)
REC_INFO(SGal3, "SGal3", QUAT, 3, 6, 3)
template <class S, unsigned int N> struct Info<manif::Rn<S, N>> {
  static std::string name() { return "{\"k\":\"Rn\",\"n\":" + std::to_string(N) + "}"; }
  static constexpr RotKind rot = NONE; static constexpr int coff = 0;
  static constexpr int aoff = 0; static constexpr int adim = 0; };

template <class S> struct ScalarName;
template <> struct ScalarName<double> { static const char* n() { return "d"; } };
template <> struct ScalarName<float> { static const char* n() { return "f"; } };

// ---------------------------------------------------------------------------------------------
// strata samplers.  Cell names are those of spec/Strata.tla; `eps` is Constants<Scalar>::eps so
// that the same names denote the scalar's own switch-over region.
struct Rng {
  std::mt19937_64 g;
  explicit Rng(uint64_t s) : g(s) {}
  double u(double a, double b) { return std::uniform_real_distribution<double>(a, b)(g); }
  double logu(double a, double b) { return std::pow(10.0, u(std::log10(a), std::log10(b))); }
  int i(int a, int b) { return std::uniform_int_distribution<int>(a, b)(g); }
  double sign() { return i(0, 1) ? 1.0 : -1.0; }
};

template <class S> double draw_theta(const std::string& c, Rng& r) {
  const double eps = (double)manif::Constants<S>::eps;
  const double sw = std::sqrt(eps), cu = std::cbrt(eps);
  const bool dbl = sizeof(S) == 8;
  const double PI = 3.14159265358979323846;
  if (c == "zero") return 0.0;
  if (c == "denormal") return dbl ? 4.9406564584124654e-324 * r.i(1, 1000) : 1.4012984643e-45 * r.i(1, 1000);
  if (c == "tiny") return dbl ? r.logu(1e-300, 1e-20) : r.logu(1e-36, 1e-12);
  if (c == "small") return dbl ? r.logu(1e-12, 1e-9) : r.logu(1e-7, 1e-5);
  if (c == "sub_sw") return dbl ? r.logu(1e-9, sw * 0.999) : r.logu(1e-5, sw * 0.999);   // between "small" and the switch-over
  if (c == "below_sw") return sw * (1.0 - r.u(1e-7, 1e-3));
  if (c == "at_sw") { S s = (S)sw; int k = r.i(-1, 1); if (k < 0) s = std::nextafter(s, (S)0); if (k > 0) s = std::nextafter(s, (S)1); return (double)s; }
  if (c == "above_sw") return sw * (1.0 + r.u(1e-5, 0.07));
  if (c == "sw_1e2") return sw * r.logu(1.07, 100.0);          // up to two decades above the switch-over
  if (c == "cube_sw") return cu * (1.0 + r.u(-0.05, 0.05));
  if (c == "mid_lo") return r.logu(sw * 100.0, 1e-3 > sw * 100 ? 1e-3 : sw * 200);
  if (c == "mid_hi") return r.logu(1e-3 > sw * 100 ? 1e-3 : sw * 200, 0.1);
  if (c == "generic") return r.u(0.1, 3.0);
  if (c == "near_pi") return PI - r.logu(1e-6, 1e-2);
  if (c == "at_pi") return r.i(0, 3) == 0 ? PI : PI - r.logu(dbl ? 1e-12 : 1e-6, dbl ? 1e-6 : 1e-4);
  if (c == "beyond_pi") return r.u(PI, 3 * PI);
  if (c == "sweep") return r.logu(1e-9, PI);                    // log-dense sweep (thorough tier)
  std::fprintf(stderr, "unknown theta cell %s\n", c.c_str()); std::exit(3);
}
inline double draw_lin(const std::string& c, Rng& r) {
  if (c == "zero") return 0.0;
  double m = c == "1e-8" ? 1e-8 : c == "1e-3" ? 1e-3 : c == "1" ? 1.0 : c == "1e3" ? 1e3 : c == "1e6" ? 1e6 : c == "1e9" ? 1e9 : -1;
  if (m < 0) { std::fprintf(stderr, "unknown lin cell %s\n", c.c_str()); std::exit(3); }
  return m * r.u(0.3, 1.0) * r.sign();
}

// a tangent with rotation magnitude drawn from thc and linear coordinates from linc.
// dir: generic | axis | par | perp  (relation between the rotation axis and the linear blocks)
// direction codes "z0", "z1", "z2": the k-th LINEAR block of the coefficient / tangent vector is exactly zero (position,
// velocity, time ... independently), everything else as drawn -- exact zeros in ONE block are a stratum of their own
template <class V> static void zero_block(V& c, int rot_lo, int rot_n, const std::string& dir) {
  if (dir.size() != 2 || dir[0] != 'z') return;
  int want = dir[1] - '0', k = 0, n = (int)c.size(), i = 0;
  while (i < n) {
    if (i >= rot_lo && i < rot_lo + rot_n) { i = rot_lo + rot_n; continue; }
    int len = 0; while (i + len < n && len < 3 && !(i + len >= rot_lo && i + len < rot_lo + rot_n)) ++len;
    if (k == want) { for (int j = 0; j < len; ++j) c(i + j) = 0; return; }
    ++k; i += len;
  }
}
template <class G> struct Draw;
template <class G> typename G::Tangent draw_tangent(const std::string& thc, const std::string& linc,
                                                    const std::string& dir, Rng& r) { return Draw<G>::tangent(thc, linc, dir, r); }
template <class G> G draw_element(const std::string& thc, const std::string& linc, const std::string& hemi,
                                  const std::string& dir, Rng& r) { return Draw<G>::element(thc, linc, hemi, dir, r); }
template <class G> struct Draw {
static typename G::Tangent tangent(const std::string& thc, const std::string& linc,
                                                    const std::string& dir, Rng& r) {
  using S = typename G::Scalar; using T = typename G::Tangent; using I = Info<G>;
  T t; Eigen::Matrix<double, T::DoF, 1> c;
  for (int i = 0; i < T::DoF; ++i) c(i) = draw_lin(linc, r);
  if (I::adim == 1) { c(I::aoff) = draw_theta<S>(thc, r) * r.sign(); }
  if (I::adim == 3) {
    Eigen::Vector3d ax(r.u(-1, 1), r.u(-1, 1), r.u(-1, 1));
    if (dir == "axis") { ax.setZero(); ax(r.i(0, 2)) = r.sign(); }
    ax.normalize();
    double th = draw_theta<S>(thc, r);
    for (int k = 0; k < 3; ++k) c(I::aoff + k) = ax(k) * th;
    if (dir == "par" || dir == "perp") {
      for (int b = 0; b + 3 <= T::DoF; b += 3) {
        if (b == I::aoff) continue;
        Eigen::Vector3d v(c(b), c(b + 1), c(b + 2)); double n = v.norm();
        if (dir == "par") v = ax * n * r.sign(); else { v -= ax * ax.dot(v); if (v.norm() > 0) v *= n / v.norm(); }
        for (int k = 0; k < 3; ++k) c(b + k) = v(k);
      }
    }
  }
  zero_block(c, I::aoff, I::adim, dir);
  for (int i = 0; i < T::DoF; ++i) t.coeffs()(i) = (S)c(i);
  return t;
}

// a group element built directly from coefficients (not through manif's exp): rotation by an angle
// from thc about a random/aligned axis, hemisphere hemi ("pos" | "neg" | "any"), linear coefficients
// from linc.  The rotation coefficients are normalised in the scalar type.
static G element(const std::string& thc, const std::string& linc, const std::string& hemi,
                                  const std::string& dir, Rng& r) {
  using S = typename G::Scalar; using I = Info<G>;
  Eigen::Matrix<S, G::RepSize, 1> c;
  for (int i = 0; i < G::RepSize; ++i) c(i) = (S)draw_lin(linc, r);
  if (I::rot == COMPLEX) {
    double th = draw_theta<S>(thc, r) * r.sign();
    S re = (S)std::cos(th), im = (S)std::sin(th); S n = std::sqrt(re * re + im * im);
    c(I::coff) = re / n; c(I::coff + 1) = im / n;
    if (std::fabs(th) == 3.14159265358979323846) { c(I::coff) = (S)-1; c(I::coff + 1) = th > 0 ? (S)0.0 : (S)-0.0; }   // the half turn exactly
  }
  if (I::rot == QUAT) {
    Eigen::Vector3d ax(r.u(-1, 1), r.u(-1, 1), r.u(-1, 1));
    if (dir == "axis") { ax.setZero(); ax(r.i(0, 2)) = r.sign(); }
    ax.normalize();
    double th = draw_theta<S>(thc, r);
    Eigen::Matrix<S, 4, 1> q; q << (S)(ax(0) * std::sin(th / 2)), (S)(ax(1) * std::sin(th / 2)), (S)(ax(2) * std::sin(th / 2)), (S)std::cos(th / 2);
    q.normalize();
    if (th == 3.14159265358979323846) { q(3) = (S)0; q.normalize(); }   // the half turn exactly: w == 0
    bool neg = hemi == "neg" || hemi == "negdn" || ((hemi == "any" || hemi == "anydn") && r.i(0, 1));
    if (neg) q = -q;
    for (int k = 0; k < 4; ++k) c(I::coff + k) = q(k);
  }
  if (hemi == "posdn" || hemi == "negdn" || hemi == "anydn") {
    // valid but not exactly normalised: squared norm off by at most 0.8 * Constants::eps (the constructor accepts up to eps)
    const S k = (S)(1.0 + 0.4 * (double)manif::Constants<S>::eps * r.u(0.2, 1.0) * r.sign());
    const int nrot = I::rot == COMPLEX ? 2 : I::rot == QUAT ? 4 : 0;
    for (int i = 0; i < nrot; ++i) c(I::coff + i) *= k;
  }
  zero_block(c, I::coff, I::rot == COMPLEX ? 2 : I::rot == QUAT ? 4 : 0, dir);
  return G(c);
}
};   // struct Draw

template <class V> V draw_point(const std::string& linc, Rng& r) {
  V p; for (int i = 0; i < p.size(); ++i) p(i) = (typename V::Scalar)draw_lin(linc, r); return p;
}

// ---------------------------------------------------------------------------------------------
// plan reading: whitespace separated tokens per line; '#' comments
struct PlanLine { std::vector<std::string> tok; const std::string& operator[](size_t i) const { static std::string e; return i < tok.size() ? tok[i] : e; } };
inline std::vector<PlanLine> read_plan(const char* path) {
  std::vector<PlanLine> v; std::ifstream in(path); std::string line;
  while (std::getline(in, line)) { if (line.empty() || line[0] == '#') continue; std::istringstream ss(line); PlanLine p; std::string t; while (ss >> t) p.tok.push_back(t); if (!p.tok.empty()) v.push_back(p); }
  return v;
}

template <class G> void head(const char* e, const PlanLine& pl, const char* prop) {
  Out& o = out(); o.begin(e); o.str("p", prop); o.raw("g", Info<G>::name()); o.str("sc", ScalarName<typename G::Scalar>::n());
  std::string st; for (size_t i = 2; i < pl.tok.size(); ++i) { if (i > 2) st += ","; st += pl.tok[i]; } o.str("st", st);
}

}  // namespace rec
