// Recorder for the algorithms and relations: C15 (interpolation), C16 (averages), C18 (tangent isApprox).
// Build per group like rec_core.  Plan line: op key prop thc linc hemi dir thc2 linc2 jac reps
#include "rec.h"
#include <list>
#include <deque>
#include <manif/algorithms/interpolation.h>
#include <manif/algorithms/average.h>
#include <algorithm>
using namespace rec;
using G = REC_GROUP; using S = typename G::Scalar; using T = typename G::Tangent;
static const char* KEY = REC_KEY;
struct Ctx { const PlanLine& pl; Rng& r; std::string prop, thc, linc, hemi, dir, thc2, linc2; int jac; };
#define HEAD(E) head<G>(E, c.pl, c.prop.c_str()); Out& o = out();

template <class V> static void put_list(Out& o, const char* k, const std::vector<V>& vs) {
  o.key(k); std::fputc('[', o.f);
  for (size_t i = 0; i < vs.size(); ++i) { if (i) std::fputc(',', o.f); std::fputc('[', o.f); for (int j = 0; j < vs[i].coeffs().size(); ++j) { if (j) std::fputc(',', o.f); o.bits((double)vs[i].coeffs()(j)); } std::fputc(']', o.f); }
  std::fputc(']', o.f);
}

// ---- C15
static manif::INTERP_METHOD method_of(const std::string& m) { return m == "CUBIC" ? manif::INTERP_METHOD::CUBIC : m == "CNSMOOTH" ? manif::INTERP_METHOD::CNSMOOTH : manif::INTERP_METHOD::SLERP; }
static void op_interp(Ctx& c) {
  // thc/linc: cell of A; thc2/linc2: cell of the relative transform; hemi field reused: method; dir field: parameter kind
  G A = draw_element<G>(c.thc, c.linc, "any", "generic", c.r);
  G B = A.compose(draw_element<G>(c.thc2, c.linc2, "any", "generic", c.r));
  const std::string method = c.hemi, pk = c.dir;
  double s = pk == "zero" ? 0.0 : pk == "one" ? 1.0 : pk == "dyadic" ? std::ldexp(1.0, -c.r.i(1, 6)) * c.r.i(1, 3) / 4.0 * 1.0 : pk == "below" ? -1e-9 : pk == "above" ? (double)std::nextafter((S)1, (S)2) : pk == "nan" ? std::nan("") : pk == "near0" ? (sizeof(S) == 8 ? 1e-12 : 1e-6) * c.r.u(0.5, 1.0) : pk == "near1" ? 1.0 - (sizeof(S) == 8 ? 1e-12 : 1e-6) * c.r.u(0.5, 1.0) : c.r.u(0.0, 1.0);
  if (pk == "dyadic" && s > 1) s = 0.5;
  T ta = c.jac ? draw_tangent<G>("generic", "1", "generic", c.r) : T::Zero(), tb = c.jac ? draw_tangent<G>("mid_hi", "1", "generic", c.r) : T::Zero();
  G L = draw_element<G>("generic", "1", "any", "generic", c.r);
  HEAD("interp") o.str("method", method); o.str("pk", pk); o.sc("par", (S)s); o.vec("a", A.coeffs()); o.vec("b", B.coeffs()); o.vec("ta", ta.coeffs()); o.vec("tb", tb.coeffs());
  try {
    G R = manif::interpolate(A, B, (S)s, method_of(method), ta, tb);
    o.str("exc", "none"); o.vec("r", R.coeffs()); o.vec("w", B.rminus(A).coeffs());
    // left translation of both end points (end velocities are body-frame quantities: unchanged)
    G RL = manif::interpolate(L.compose(A), L.compose(B), (S)s, method_of(method), ta, tb);
    o.vec("L", L.coeffs()); o.vec("la", L.compose(A).coeffs()); o.vec("lb", L.compose(B).coeffs()); o.vec("rl", RL.coeffs());
  } catch (const std::exception&) { o.str("exc", "raised"); }
  o.end();
}
static void op_phi(Ctx& c) {
  for (int deg = 0; deg <= 6; ++deg) for (int k = 0; k <= 8; ++k) {
    double t = k / 8.0; if (c.thc == "random") t = c.r.u(0, 1);
    HEAD("phi") o.num("deg", deg); o.sc("tt", (S)t);
    try { S v = manif::smoothing_phi((S)t, (std::size_t)deg); o.str("exc", "none"); o.sc("v", v); } catch (const std::exception&) { o.str("exc", "raised"); }
    o.end();
  }
}
// ---- C16
template <class F> static void run_avg(Out& o, const char* key, F f, const std::vector<G>& pts) {
  try { G m = f(pts); o.vec(key, m.coeffs()); } catch (const std::exception&) { o.str(key, "raised"); }
}
template <class Cont> static G call_avg(const std::string& routine, const Cont& pts) {
  if (routine == "biinvariant") return manif::average_biinvariant(pts);
  if (routine == "average") return manif::average(pts);
  if (routine == "frechet_left") return manif::average_frechet_left(pts);
  return manif::average_frechet_right(pts);
}
static void op_avg(Ctx& c) {
  // thc/linc: cell of the centre; hemi field: routine; dir field: cloud kind (n1,n2,n3,n10,n50,same,empty); radius <= 0.5
  const std::string routine = c.hemi, kind = c.dir;
  G C = draw_element<G>(c.thc, c.linc, "any", "generic", c.r);
  int n = kind == "n1" ? 1 : kind == "n2" ? 2 : kind == "n3" ? 3 : kind == "n50" ? 50 : kind == "empty" ? 0 : kind == "same" ? 4 : kind == "out1" ? 6 : 10;
  std::vector<G> pts;
  for (int i = 0; i < n; ++i) {
    if (kind == "same") { pts.push_back(C); continue; }
    T d; for (int j = 0; j < T::DoF; ++j) d.coeffs()(j) = (S)(c.r.u(-1, 1)); d.coeffs() *= (S)((kind == "out1" ? (i == 0 ? 0.5 : c.r.u(0.01, 0.05)) : c.r.u(0.05, 0.5)) / std::max(1e-9, (double)d.coeffs().norm()));   // out1: the first point (the initial guess) is the outlier
    pts.push_back(C.rplus(d));
  }
  HEAD("avg") o.str("routine", routine); o.str("kind", kind); o.num("n", n); put_list(o, "pts", pts);
  try {
    G m = call_avg(routine, pts);
    o.str("exc", "none"); o.vec("m", m.coeffs());
    // the same points in other standard containers (same iteration order): the same result, bit for bit
    { std::list<G> lst(pts.begin(), pts.end()); std::deque<G> dq(pts.begin(), pts.end());
      o.vec("mlist", call_avg(routine, lst).coeffs()); o.vec("mdeque", call_avg(routine, dq).coeffs()); }
    std::vector<T> wit; for (auto& X : pts) wit.push_back(X.rminus(m)); put_list(o, "wit", wit);
    std::vector<G> perm = pts; std::reverse(perm.begin(), perm.end()); if (perm.size() > 2) std::swap(perm[0], perm[perm.size() / 2]);
    o.vec("mperm", call_avg(routine, perm).coeffs());
    G L = draw_element<G>("generic", "1", "any", "generic", c.r), Rg = draw_element<G>("generic", "1", "any", "generic", c.r);
    std::vector<G> lp, rp; for (auto& X : pts) { lp.push_back(L.compose(X)); rp.push_back(X.compose(Rg)); }
    o.vec("L", L.coeffs()); o.vec("R", Rg.coeffs()); put_list(o, "lpts", lp); put_list(o, "rpts", rp);
    o.vec("mleft", call_avg(routine, lp).coeffs()); o.vec("mright", call_avg(routine, rp).coeffs());
  } catch (const std::exception&) { o.str("exc", "raised"); }
  o.end();
}
// ---- C18 tangent relation
static void op_tisapprox(Ctx& c) {
  T a = draw_tangent<G>(c.thc, c.linc, "generic", c.r);
  double eps = c.thc2 == "eps" ? (double)manif::Constants<S>::eps : c.thc2 == "1e-9" ? 1e-9 : 1e-3;
  if (sizeof(S) == 4 && eps < 1e-6) eps = (double)manif::Constants<S>::eps;   // a tolerance below single precision is meaningless for float
  double f = c.linc2 == "0" ? 0 : c.linc2 == "lo" ? 1.0 / 64 : c.linc2 == "hi" ? 64.0 : 1.0 / 1000;
  // relative perturbation of size f*eps (relative test) ...
  T b = a; for (int i = 0; i < T::DoF; ++i) b.coeffs()(i) = (S)((double)a.coeffs()(i) * (1.0 + c.r.sign() * eps * f));
  // ... and an absolute one against zero
  T z = T::Zero(), small; for (int i = 0; i < T::DoF; ++i) small.coeffs()(i) = (S)(c.r.sign() * c.r.u(0.5, 1.0) * eps * f);
  HEAD("tisapprox") o.vec("t", a.coeffs()); o.vec("s", b.coeffs()); o.vec("small", small.coeffs()); o.sc("eps", (S)eps);
  o.num("aa", a.isApprox(a, (S)eps) ? 1 : 0); o.num("ab", a.isApprox(b, (S)eps) ? 1 : 0); o.num("ba", b.isApprox(a, (S)eps) ? 1 : 0);
  o.num("zs", z.isApprox(small, (S)eps) ? 1 : 0); o.num("sz", small.isApprox(z, (S)eps) ? 1 : 0); o.num("eq", (a == a) ? 1 : 0);
  // a pair whose norms straddle eps (one argument in the absolute regime, the other not) at distance 0.1 eps
  T p = T::Zero(), q = T::Zero(); int kk = c.r.i(0, T::DoF - 1); p.coeffs()(kk) = (S)(0.95 * eps); q.coeffs()(kk) = (S)(1.05 * eps);
  o.vec("p", p.coeffs()); o.vec("q", q.coeffs()); o.num("pq", p.isApprox(q, (S)eps) ? 1 : 0); o.num("qp", q.isApprox(p, (S)eps) ? 1 : 0);
  o.end();
}

// ---- beyond the listed properties: the vector-space structure of tangents, Jacobian*Tangent, utilities, Random()
static void op_tarith(Ctx& c) {
  T a = draw_tangent<G>(c.thc, c.linc, "generic", c.r), b = draw_tangent<G>("generic", c.linc, "generic", c.r);
  S k = (S)c.r.u(-3, 3); if (k == (S)0) k = (S)0.5;
  typename G::Jacobian J; for (int i = 0; i < J.rows(); ++i) for (int j = 0; j < J.cols(); ++j) J(i, j) = (S)c.r.u(-2, 2);
  T pe = a; pe += b; T me = a; me -= b; T te = a; te *= k; T de = a; de /= k;
  HEAD("tarith") o.vec("t", a.coeffs()); o.vec("s", b.coeffs()); o.sc("k", k); o.mat("J", J);
  o.vec("add", (a + b).coeffs()); o.vec("sub", (a - b).coeffs()); o.vec("neg", (-a).coeffs()); o.vec("muls", (a * k).coeffs()); o.vec("smul", (k * a).coeffs());
  o.vec("divs", (a / k).coeffs()); o.vec("pe", pe.coeffs()); o.vec("me", me.coeffs()); o.vec("te", te.coeffs()); o.vec("de", de.coeffs());
  o.vec("Jt", (J * a).coeffs()); o.vec("zero", T::Zero().coeffs());
  o.end();
}
static void op_misc(Ctx& c) {
  HEAD("misc")
  std::vector<double> th, res; std::vector<long> ks;
  for (int i = 0; i < 12; ++i) { double x = i < 4 ? c.r.u(-10, 10) : i < 8 ? c.r.u(-1e4, 1e4) : (i == 8 ? M_PI : i == 9 ? -M_PI : i == 10 ? 3 * M_PI : 0.0);
    S r = manif::pi2pi((S)x); th.push_back((double)(S)x); res.push_back((double)r); ks.push_back(std::lround(((double)(S)x - (double)r) / (2 * M_PI))); }
  o.key("th"); std::fputc('[', o.f); for (size_t i = 0; i < th.size(); ++i) { if (i) std::fputc(',', o.f); o.bits(th[i]); } std::fputc(']', o.f);
  o.key("wrapped"); std::fputc('[', o.f); for (size_t i = 0; i < res.size(); ++i) { if (i) std::fputc(',', o.f); o.bits(res[i]); } std::fputc(']', o.f);
  o.key("turns"); std::fputc('[', o.f); for (size_t i = 0; i < ks.size(); ++i) std::fprintf(o.f, "%s%ld", i ? "," : "", ks[i]); std::fputc(']', o.f);
  S d = (S)c.r.u(-720, 720); o.sc("deg", d); o.sc("rad", manif::toRad(d)); o.sc("deg2", manif::toDeg(manif::toRad(d)));
  G X = G::Random(); T t = T::Random(); o.vec("a", X.coeffs()); o.vec("rt", t.coeffs());
  o.end();
}

int main(int argc, char** argv) {
  if (argc < 4) return 2; install_terminate();
  auto plan = read_plan(argv[1]); out().open(argv[2]); uint64_t seed = std::strtoull(argv[3], 0, 10); long ln = 0;
  for (auto& pl : plan) {
    ++ln; if (pl[1] != KEY) continue;
    Rng r(seed * 1000003ull + ln * 7919ull + std::hash<std::string>()(KEY));
    Ctx c{pl, r, pl[2], pl[3], pl[4], pl[5], pl[6], pl[7], pl[8], std::atoi(pl[9].c_str())};
    int reps = std::max(1, std::atoi(pl[10].c_str())); const std::string& op = pl[0];
    for (int k = 0; k < reps; ++k) {
      if (op == "interp") op_interp(c); else if (op == "phi") { op_phi(c); break; } else if (op == "avg") op_avg(c);
      else if (op == "tisapprox") op_tisapprox(c); else if (op == "tarith") op_tarith(c); else if (op == "misc") op_misc(c);
      else { std::fprintf(stderr, "unknown op %s\n", op.c_str()); return 3; }
    }
  }
  out().close(); return 0;
}
