// Bundle support for the recorders: group descriptor, samplers (element-wise), layout introspection.
#pragma once
#include "rec.h"
#include <utility>
namespace rec {
template <class S, template <class> class... Ts>
struct Info<manif::Bundle<S, Ts...>> {
  using B = manif::Bundle<S, Ts...>;
  static std::string name() {
    std::string s = "{\"k\":\"Bundle\",\"parts\":["; bool first = true;
    const std::string parts[] = { Info<Ts<S>>::name()... };
    for (const auto& p : parts) { if (!first) s += ","; s += p; first = false; }
    return s + "]}";
  }
  static constexpr RotKind rot = NONE; static constexpr int coff = 0, aoff = 0, adim = 0;
};
template <class S, template <class> class... Ts>
struct Draw<manif::Bundle<S, Ts...>> {
  using B = manif::Bundle<S, Ts...>; using T = typename B::Tangent;
  template <std::size_t... I>
  static B element_impl(const std::string& thc, const std::string& linc, const std::string& hemi, const std::string& dir, Rng& r, std::index_sequence<I...>) {
    B b; auto l = { ((b.template element<I>() = draw_element<typename B::template Element<I>>(thc, linc, hemi, dir, r)), 0)... }; (void)l; return b;
  }
  static B element(const std::string& thc, const std::string& linc, const std::string& hemi, const std::string& dir, Rng& r) {
    return element_impl(thc, linc, hemi, dir, r, std::make_index_sequence<sizeof...(Ts)>());
  }
  template <std::size_t... I>
  static T tangent_impl(const std::string& thc, const std::string& linc, const std::string& dir, Rng& r, std::index_sequence<I...>) {
    T t; auto l = { ((t.template element<I>() = draw_tangent<typename B::template Element<I>>(thc, linc, dir, r)), 0)... }; (void)l; return t;
  }
  static T tangent(const std::string& thc, const std::string& linc, const std::string& dir, Rng& r) {
    return tangent_impl(thc, linc, dir, r, std::make_index_sequence<sizeof...(Ts)>());
  }
};
}  // namespace rec
