// Recorder for the functional (single call) events of C01..C07, C18.
// Build: one binary per group/scalar:  -DREC_GROUP='manif::SE3<double>' -DREC_KEY='"SE3_d"'
// Usage: rec_core <plan> <out.ndjson> <seed>
// Plan line:  op  key  prop  thc  linc  hemi  dir  thc2  linc2  jac  reps
#include "rec.h"
using namespace rec;
using G = REC_GROUP;
using S = typename G::Scalar;
using T = typename G::Tangent;
using Jac = typename G::Jacobian;
using Vec = typename G::Vector;
static const char* KEY = REC_KEY;

struct Ctx { const PlanLine& pl; Rng& r; std::string prop, thc, linc, hemi, dir, thc2, linc2; bool jac; };

static G elemA(Ctx& c) { return draw_element<G>(c.thc, c.linc, c.hemi, c.dir, c.r); }
// second operand: either hemisphere; de-normalised (within the acceptance threshold) when the first one is
static G elemD(Ctx& c) { const bool dn = c.hemi.size() > 2 && c.hemi.compare(c.hemi.size() - 2, 2, "dn") == 0; return draw_element<G>(c.thc2, c.linc2, dn ? "anydn" : "any", c.dir, c.r); }
static T tanA(Ctx& c) { return draw_tangent<G>(c.thc, c.linc, c.dir, c.r); }
static T tanB(Ctx& c) { return draw_tangent<G>(c.thc2, c.linc2, "generic", c.r); }

#define HEAD(E) head<G>(E, c.pl, c.prop.c_str()); Out& o = out();

// optional outputs: when Jacobians are planned, a random NON-EMPTY SUBSET of them is requested (C05 holds for
// every subset; C09 checks that the subset does not matter)
static int pick_mask(Ctx& c) { return c.jac ? c.r.i(1, 3) : 0; }
static tl::optional<Eigen::Ref<Jac>> opt(Jac& J, bool on) { if (!on) return {}; return tl::optional<Eigen::Ref<Jac>>(J); }
static void op_compose(Ctx& c) {
  G X = elemA(c), Y = elemD(c); Jac Ja, Jb; int m = pick_mask(c); G R = X.compose(Y, opt(Ja, m & 1), opt(Jb, m & 2));
  HEAD("compose") o.vec("a", X.coeffs()); o.vec("b", Y.coeffs()); o.vec("r", R.coeffs());
  if (m & 1) o.mat("Ja", Ja); if (m & 2) o.mat("Jb", Jb); o.end();
}
// two operands whose zero patterns differ: one operand has the k-th linear block exactly zero (direction code z0/z1/z2:
// zero position, zero velocity, zero time), the other is generic -- alternating which one (a fast path keyed on a zero block
// of ONE operand must still use the matching block of the other)
static void op_composex(Ctx& c) {
  static long n = 0; const bool first = (n++ % 2) == 0;
  G X = draw_element<G>(c.thc, c.linc, c.hemi, first ? c.dir : std::string("generic"), c.r);
  G Y = draw_element<G>(c.thc2, c.linc2, "any", first ? std::string("generic") : c.dir, c.r);
  G R = X.compose(Y);
  { HEAD("compose") o.vec("a", X.coeffs()); o.vec("b", Y.coeffs()); o.vec("r", R.coeffs()); o.end(); }
}
static void op_inverse(Ctx& c) {
  G X = elemA(c); Jac Ja; G R = c.jac ? X.inverse(Ja) : X.inverse();
  HEAD("inverse") o.vec("a", X.coeffs()); o.vec("r", R.coeffs()); if (c.jac) o.mat("Ja", Ja); o.end();
}
static void op_act(Ctx& c) {
  G X = elemA(c); Vec p = draw_point<Vec>(c.linc2, c.r);
  Eigen::Matrix<S, G::Dim, G::DoF> Ja; Eigen::Matrix<S, G::Dim, G::Dim> Jp;
  int m = pick_mask(c);
  Vec v = X.act(p, (m & 1) ? tl::optional<Eigen::Ref<Eigen::Matrix<S, G::Dim, G::DoF>>>(Ja) : tl::optional<Eigen::Ref<Eigen::Matrix<S, G::Dim, G::DoF>>>(),
                   (m & 2) ? tl::optional<Eigen::Ref<Eigen::Matrix<S, G::Dim, G::Dim>>>(Jp) : tl::optional<Eigen::Ref<Eigen::Matrix<S, G::Dim, G::Dim>>>());
  HEAD("act") o.vec("a", X.coeffs()); o.vec("pt", p); o.vec("rv", v); if (m & 1) o.mat("Ja", Ja); if (m & 2) o.mat("Jp", Jp); o.end();
}
static void op_identity(Ctx& c) {
  G I = G::Identity(); G X; X.setIdentity();
  HEAD("identity") o.vec("r", I.coeffs()); o.vec("r2", X.coeffs()); o.mat("rm", I.transform()); o.end();
}
template <class GG> static void put_rot(const GG& X, std::true_type) { out().mat("rot", X.rotation()); }
template <class GG> static void put_rot(const GG&, std::false_type) {}
static void op_transform(Ctx& c) {
  G X = elemA(c);
  HEAD("transform") o.vec("a", X.coeffs()); o.mat("rm", X.transform());
  put_rot(X, std::integral_constant<bool, Info<G>::rot != NONE>()); o.end();
}
static void op_exp(Ctx& c) {
  T t = tanA(c); Jac Jt; G R = c.jac ? t.exp(Jt) : t.exp();
  HEAD("exp") o.vec("t", t.coeffs()); o.vec("r", R.coeffs()); if (c.jac) o.mat("Jt", Jt); o.end();
}
static void op_log(Ctx& c) {
  G X = elemA(c); Jac Ja; T t = c.jac ? X.log(Ja) : X.log();
  HEAD("log") o.vec("a", X.coeffs()); o.vec("rt", t.coeffs()); if (c.jac) o.mat("Ja", Ja); o.end();
}
// log of an element produced by exp (second provenance) and the round trip t.exp().log()
static void op_explog(Ctx& c) {
  T t = tanA(c); G X = t.exp(); T u = X.log();
  HEAD("explog") o.vec("t", t.coeffs()); o.vec("a", X.coeffs()); o.vec("rt", u.coeffs()); o.end();
}
// log of X and of the coefficient-negated twin (same transformation)
static void op_logtwin(Ctx& c) {
  G X = elemA(c); T u = X.log();
  Eigen::Matrix<S, G::RepSize, 1> cc = X.coeffs();
  if (Info<G>::rot == QUAT) for (int k = 0; k < 4; ++k) cc(Info<G>::coff + k) = -cc(Info<G>::coff + k);
  G Y(cc); T w = Y.log();
  HEAD("logtwin") o.vec("a", X.coeffs()); o.vec("b", Y.coeffs()); o.vec("rt", u.coeffs()); o.vec("rt2", w.coeffs()); o.end();
}
// log of a product of two large rotations (composition-chain provenance: angle 2*pi - epsilon)
static void op_logchain(Ctx& c) {
  G A = draw_element<G>("near_pi", c.linc, "any", c.dir, c.r);
  G B = A; // same axis: A*A has angle 2*pi - 2e, i.e. w<0 with a tiny vector part
  G X = c.r.i(0, 1) ? A.compose(B) : A.compose(draw_element<G>("near_pi", c.linc, "any", c.dir, c.r));
  T u = X.log();
  HEAD("log") o.vec("a", X.coeffs()); o.vec("rt", u.coeffs()); o.str("prov", "chain"); o.end();
}
static void op_rplus(Ctx& c) {
  G X = elemA(c); T t = tanB(c); Jac Ja, Jt; int m = pick_mask(c); G R = X.rplus(t, opt(Ja, m & 1), opt(Jt, m & 2));
  HEAD("rplus") o.vec("a", X.coeffs()); o.vec("t", t.coeffs()); o.vec("r", R.coeffs()); if (m & 1) o.mat("Ja", Ja); if (m & 2) o.mat("Jt", Jt); o.end();
}
static void op_lplus(Ctx& c) {
  G X = elemA(c); T t = tanB(c); Jac Ja, Jt; int m = pick_mask(c); G R = X.lplus(t, opt(Ja, m & 1), opt(Jt, m & 2));
  HEAD("lplus") o.vec("a", X.coeffs()); o.vec("t", t.coeffs()); o.vec("r", R.coeffs()); if (m & 1) o.mat("Ja", Ja); if (m & 2) o.mat("Jt", Jt); o.end();
}
// two-operand operations: one draw in 16 uses bitwise IDENTICAL operands (X (-) X, between(X, X)): an exact special case
static bool same_operands(Ctx& c) { return c.r.i(0, 15) == 0; }
static void op_rminus(Ctx& c) {
  G Y = elemA(c); G X = Y.compose(elemD(c)); if (same_operands(c)) X = Y; Jac Ja, Jb; int m = pick_mask(c); T t = X.rminus(Y, opt(Ja, m & 1), opt(Jb, m & 2));
  HEAD("rminus") o.vec("a", X.coeffs()); o.vec("b", Y.coeffs()); o.vec("rt", t.coeffs()); if (m & 1) o.mat("Ja", Ja); if (m & 2) o.mat("Jb", Jb); o.end();
}
static void op_lminus(Ctx& c) {
  G Y = elemA(c); G X = elemD(c).compose(Y); if (same_operands(c)) X = Y; Jac Ja, Jb; int m = pick_mask(c); T t = X.lminus(Y, opt(Ja, m & 1), opt(Jb, m & 2));
  HEAD("lminus") o.vec("a", X.coeffs()); o.vec("b", Y.coeffs()); o.vec("rt", t.coeffs()); if (m & 1) o.mat("Ja", Ja); if (m & 2) o.mat("Jb", Jb); o.end();
}
static void op_between(Ctx& c) {
  G X = elemA(c); G Y = X.compose(elemD(c)); if (same_operands(c)) Y = X; Jac Ja, Jb; int m = pick_mask(c); G R = X.between(Y, opt(Ja, m & 1), opt(Jb, m & 2));
  HEAD("between") o.vec("a", X.coeffs()); o.vec("b", Y.coeffs()); o.vec("r", R.coeffs()); if (m & 1) o.mat("Ja", Ja); if (m & 2) o.mat("Jb", Jb); o.end();
}
static void op_tplus(Ctx& c) {   // tangent + tangent and tangent - tangent with Jacobians
  T a = tanA(c), b = tanB(c); Jac J1, J2, J3, J4; T p = a.plus(b, J1, J2); T m = a.minus(b, J3, J4);
  HEAD("tplus") o.vec("t", a.coeffs()); o.vec("s", b.coeffs()); o.vec("rt", p.coeffs()); o.vec("rt2", m.coeffs());
  o.mat("Ja", J1); o.mat("Jb", J2); o.mat("Jc", J3); o.mat("Jd", J4);
  // each output requested alone, and none: same value, same Jacobian
  { Jac K1, K2, K3, K4; const typename T::OptJacobianRef _{};
    T p1 = a.plus(b, K1, _), p2 = a.plus(b, _, K2), p0 = a.plus(b), m1 = a.minus(b, K3, _), m2 = a.minus(b, _, K4), m0 = a.minus(b);
    o.mat("Ja1", K1); o.mat("Jb1", K2); o.mat("Jc1", K3); o.mat("Jd1", K4);
    o.vec("rt_a", p1.coeffs()); o.vec("rt_b", p2.coeffs()); o.vec("rt_0", p0.coeffs()); o.vec("rt2_a", m1.coeffs()); o.vec("rt2_b", m2.coeffs()); o.vec("rt2_0", m0.coeffs()); }
  o.end();
}
static void op_jacs(Ctx& c) {    // rjac ljac rjacinv ljacinv smallAdj of one tangent
  T t = tanA(c);
  HEAD("jacs") o.vec("t", t.coeffs()); o.mat("Jr", t.rjac()); o.mat("Jl", t.ljac()); o.mat("Jri", t.rjacinv()); o.mat("Jli", t.ljacinv());
  o.mat("sadj", t.smallAdj()); o.end();
}
static void op_adj(Ctx& c) {
  G X = elemA(c);
  HEAD("adj") o.vec("a", X.coeffs()); o.mat("J", X.adj()); o.end();
}
static void op_adjexp(Ctx& c) {  // Adj(exp t) next to ljac*rjacinv
  T t = tanA(c); G X = t.exp();
  HEAD("adjexp") o.vec("t", t.coeffs()); o.vec("a", X.coeffs()); o.mat("J", X.adj()); o.mat("JlJri", (t.ljac() * t.rjacinv()).eval()); o.end();
}
// --- Lie algebra structure (C07)
static T int_tangent(Ctx& c, bool integer) {
  T t; for (int i = 0; i < T::DoF; ++i) t.coeffs()(i) = integer ? (S)c.r.i(-2, 2) : (S)c.r.u(-2, 2); return t;
}
static void op_generator(Ctx& c) {
  for (int i = -2; i <= (int)T::DoF + 2; ++i) {
    HEAD("generator") o.num("i", i);
    try { typename T::LieAlg A = T::Generator(i); o.mat("rm", A); o.str("exc", "none"); }
    catch (const manif::invalid_argument&) { o.str("exc", "invalid_argument"); }
    catch (const std::exception&) { o.str("exc", "other"); }
    o.end();
  }
}
static void op_algebra(Ctx& c) {
  bool integer = c.thc == "int";
  T a = int_tangent(c, integer), b = int_tangent(c, integer);
  typename T::LieAlg A = a.hat();
  T v = T::Vee(A); T br = T::Bracket(a, b);
  HEAD("algebra") o.vec("t", a.coeffs()); o.vec("s", b.coeffs()); o.mat("hat", A); o.vec("vee", v.coeffs()); o.vec("br", br.coeffs());
  o.sc("inner", a.inner(b)); o.sc("wn", a.weightedNorm()); o.sc("swn", a.squaredWeightedNorm()); o.mat("W", T::InnerWeights());
  o.num("exact", integer ? 1 : 0); o.end();
}
// --- approximate equality (C18)
static void op_isapprox(Ctx& c) {
  G X = elemA(c);
  // pair at controlled tangent distance: Y = X (+) d, |d|_inf = dist * factor
  double eps = c.thc2 == "eps" ? (double)manif::Constants<S>::eps : c.thc2 == "1e-9" ? 1e-9 : 1e-3;
  if (sizeof(S) == 4 && eps < 1e-6) eps = (double)manif::Constants<S>::eps;   // a tolerance below single precision is meaningless for float
  double f = c.linc2 == "0" ? 0 : c.linc2 == "lo" ? 1.0 / 64 : c.linc2 == "hi" ? 64.0 : 1.0 / 1000;
  T d; for (int i = 0; i < T::DoF; ++i) d.coeffs()(i) = (S)(c.r.u(0.5, 1.0) * c.r.sign() * eps * f);
  G Y = X.rplus(d);
  HEAD("isapprox") o.vec("a", X.coeffs()); o.vec("b", Y.coeffs()); o.sc("eps", (S)eps); o.vec("d", d.coeffs());
  o.num("xx", X.isApprox(X, (S)eps) ? 1 : 0); o.num("eqxx", (X == X) ? 1 : 0);
  o.num("xy", X.isApprox(Y, (S)eps) ? 1 : 0); o.num("yx", Y.isApprox(X, (S)eps) ? 1 : 0);
  o.vec("w", Y.rminus(X).coeffs());   // witness of Y (-) X, verified by the spec before use
  // the coefficient-negated twin denotes the same transformation
  Eigen::Matrix<S, G::RepSize, 1> cc = X.coeffs();
  if (Info<G>::rot == QUAT) for (int k = 0; k < 4; ++k) cc(Info<G>::coff + k) = -cc(Info<G>::coff + k);
  G Xt(cc); o.num("xt", X.isApprox(Xt, (S)eps) ? 1 : 0); o.num("tx", Xt.isApprox(X, (S)eps) ? 1 : 0); o.num("eqxt", (X == Xt) ? 1 : 0);
  o.end();
}

// --- aliases (C04): every documented alias returns what the canonical member returns, bit for bit,
// for owning operands and for Eigen::Map views
struct AliasLog { std::vector<std::string> names; std::vector<Eigen::Matrix<S, Eigen::Dynamic, 1>> vals, canon; 
  template <class A, class B> void add(const char* n, const A& a, const B& b) { names.push_back(n); vals.push_back(a.coeffs()); canon.push_back(b.coeffs()); } };
template <class XT, class YT, class TT> static void alias_impl(AliasLog& L, const XT& X, const YT& Y, const TT& t) {
  const G rp = X.rplus(t), lp = X.lplus(t), co = X.compose(Y), bt = X.between(Y), inv = X.inverse(); const T rm = X.rminus(Y), lm = X.lminus(Y), lg = X.log(); const G ex = t.exp();
  L.add("X.plus(t)", X.plus(t), rp); L.add("X+t", X + t, rp); L.add("X.minus(Y)", X.minus(Y), rm); L.add("X-Y", X - Y, rm); L.add("X*Y", X * Y, co);
  { G Z = X; Z += t; L.add("X+=t", Z, rp); } { G Z = X; Z *= Y; L.add("X*=Y", Z, co); }
  L.add("t+X", t + X, lp); L.add("t.plus(X)", t.plus(X), lp); L.add("t.lplus(X)", t.lplus(X), lp); L.add("t.rplus(X)", t.rplus(X), rp);
  L.add("manif::rplus", manif::rplus(X, t), rp); L.add("manif::lplus", manif::lplus(X, t), lp); L.add("manif::plus", manif::plus(X, t), rp);
  L.add("manif::rminus", manif::rminus(X, Y), rm); L.add("manif::lminus", manif::lminus(X, Y), lm); L.add("manif::minus", manif::minus(X, Y), rm);
  L.add("manif::compose", manif::compose(X, Y), co); L.add("manif::between", manif::between(X, Y), bt); L.add("manif::inverse", manif::inverse(X), inv);
  L.add("manif::log", manif::log(X), lg); L.add("manif::exp", manif::exp(t), ex);
}
static void op_alias(Ctx& c) {
  G X = elemA(c), Y = elemD(c); T t = tanB(c);
  AliasLog own, view;
  alias_impl(own, X, Y, t);
  { Eigen::Matrix<S, G::RepSize, 1> bx = X.coeffs(), by = Y.coeffs(); Eigen::Matrix<S, T::DoF, 1> bt = t.coeffs();
    Eigen::Map<G> mx(bx.data()); Eigen::Map<const G> my(by.data()); Eigen::Map<const T> mt(bt.data());
    alias_impl(view, mx, my, mt);
    // the complementary storage kinds: read-only view of X, mutable views of Y and t (names suffixed, same canonical values)
    { AliasLog v2; Eigen::Map<const G> cx(bx.data()); Eigen::Map<G> wy(by.data()); Eigen::Map<T> wt(bt.data());
      alias_impl(v2, cx, wy, wt);
      for (size_t i = 0; i < v2.names.size(); ++i) { view.names.push_back(v2.names[i] + " [const X, mutable Y, t]"); view.vals.push_back(v2.vals[i]); view.canon.push_back(v2.canon[i]); } }
    // the compound operators with the right operand a DIFFERENT view object over the SAME buffer (X *= X through views)
    { Eigen::Matrix<S, G::RepSize, 1> bz = X.coeffs(); Eigen::Map<G> mz(bz.data()); Eigen::Map<const G> cz(bz.data()); mz *= cz; view.add("Xview*=constview(same buffer)", mz, X.compose(X)); }
    { Eigen::Matrix<S, G::RepSize, 1> bz = X.coeffs(); Eigen::Map<G> mz(bz.data()), mz2(bz.data()); mz *= mz2; view.add("Xview*=view(same buffer)", mz, X.compose(X)); }
    { G Xo = X; Eigen::Map<const G> cz(Xo.data()); Xo *= cz; view.add("X*=constview(X.data())", Xo, X.compose(X)); } }
  for (int pass = 0; pass < 2; ++pass) {
    AliasLog& L = pass ? view : own;
    HEAD("alias") o.str("kind", pass ? "view" : "own"); o.vec("a", X.coeffs()); o.vec("b", Y.coeffs()); o.vec("t", t.coeffs());
    o.key("names"); std::fputc('[', o.f); for (size_t i = 0; i < L.names.size(); ++i) std::fprintf(o.f, "%s\"%s\"", i ? "," : "", L.names[i].c_str()); std::fputc(']', o.f);
    o.key("vals"); std::fputc('[', o.f); for (size_t i = 0; i < L.vals.size(); ++i) { if (i) std::fputc(',', o.f); std::fputc('[', o.f); for (int j = 0; j < L.vals[i].size(); ++j) { if (j) std::fputc(',', o.f); o.bits((double)L.vals[i](j)); } std::fputc(']', o.f); } std::fputc(']', o.f);
    o.key("canon"); std::fputc('[', o.f); for (size_t i = 0; i < L.canon.size(); ++i) { if (i) std::fputc(',', o.f); std::fputc('[', o.f); for (int j = 0; j < L.canon[i].size(); ++j) { if (j) std::fputc(',', o.f); o.bits((double)L.canon[i](j)); } std::fputc(']', o.f); } std::fputc(']', o.f);
    // the view run must also agree with the owning run
    if (pass) { o.key("own"); std::fputc('[', o.f); for (size_t i2 = 0; i2 < 2 * own.vals.size(); ++i2) { const size_t i = i2 % own.vals.size(); /* both view runs, in the same order */ if (i2) std::fputc(',', o.f); std::fputc('[', o.f); for (int j = 0; j < own.vals[i].size(); ++j) { if (j) std::fputc(',', o.f); o.bits((double)own.vals[i](j)); } std::fputc(']', o.f); } std::fputc(']', o.f); }
    o.end();
  }
}

#ifdef REC_IS_BUNDLE
// --- Bundle = direct product (C11): static index tables, element<i>() aliasing, element-wise equality
template <class A> static void put_arr(Out& o, const char* k, const A& a) { o.key(k); std::fputc('[', o.f); for (size_t i = 0; i < a.size(); ++i) std::fprintf(o.f, "%s%d", i ? "," : "", (int)a[i]); std::fputc(']', o.f); }
// data() of a temporary read-only view: the non-const overload does not compile for Map<const X>, so go through a const reference
template <class E> static const typename E::Scalar* cdata(const E& e) { return e.data(); }
template <std::size_t... I> static void layout_impl(Ctx& c, std::index_sequence<I...>) {
  G X = draw_element<G>("generic", "1", "any", "generic", c.r); T t = draw_tangent<G>("generic", "1", "generic", c.r);
  HEAD("layout")
  put_arr(o, "DimIdx", manif::internal::traits<G>::DimIdx); put_arr(o, "DoFIdx", manif::internal::traits<G>::DoFIdx);
  put_arr(o, "RepIdx", manif::internal::traits<G>::RepSizeIdx); put_arr(o, "TraIdx", manif::internal::traits<G>::TraIdx);
  put_arr(o, "AlgIdx", manif::internal::traits<T>::AlgIdx);
  o.num("Dim", G::Dim); o.num("DoF", G::DoF); o.num("Rep", G::RepSize); o.num("Tra", G::Transformation::RowsAtCompileTime); o.num("Alg", T::LieAlg::RowsAtCompileTime);
  std::vector<long> eo = { (long)(X.template element<I>().data() - X.data())... };
  std::vector<long> to = { (long)(t.template element<I>().data() - t.data())... };
  // the same through views of the bundle: a mutable view, a const view, and a const bundle object
  Eigen::Map<G> mv(X.data()); const Eigen::Map<const G> cv(X.data()); const G& cX = X;
  Eigen::Map<T> mtv(t.data()); const Eigen::Map<const T> ctv(t.data());
  std::vector<long> eo_m = { (long)(mv.template element<I>().data() - X.data())... };
  std::vector<long> eo_c = { (long)(cdata(cv.template element<I>()) - X.data())... };
  std::vector<long> eo_k = { (long)(cdata(cX.template element<I>()) - X.data())... };
  std::vector<long> to_m = { (long)(mtv.template element<I>().data() - t.data())... };
  std::vector<long> to_c = { (long)(cdata(ctv.template element<I>()) - t.data())... };
  o.key("elem_off"); std::fputc('[', o.f); for (size_t i = 0; i < eo.size(); ++i) std::fprintf(o.f, "%s%ld", i ? "," : "", eo[i]); std::fputc(']', o.f);
  o.key("telem_off"); std::fputc('[', o.f); for (size_t i = 0; i < to.size(); ++i) std::fprintf(o.f, "%s%ld", i ? "," : "", to[i]); std::fputc(']', o.f);
  auto putl = [&](const char* k, const std::vector<long>& v) { o.key(k); std::fputc('[', o.f); for (size_t i = 0; i < v.size(); ++i) std::fprintf(o.f, "%s%ld", i ? "," : "", v[i]); std::fputc(']', o.f); };
  putl("elem_off_view", eo_m); putl("elem_off_cview", eo_c); putl("elem_off_const", eo_k); putl("telem_off_view", to_m); putl("telem_off_cview", to_c);
  // Random / setRandom / Zero / setZero / setIdentity of the bundle act on every element
  { G R1 = G::Random(), R2 = X; R2.setRandom(); G I2 = X; I2.setIdentity(); T r1 = T::Random(), r2 = t; r2.setRandom(); T z1 = T::Zero(), z2 = t; z2.setZero();
    o.vec("rand", R1.coeffs()); o.vec("rand2", R2.coeffs()); o.vec("setid", I2.coeffs()); o.vec("ident", G::Identity().coeffs());
    o.vec("trand", r1.coeffs()); o.vec("trand2", r2.coeffs()); o.vec("tzero", z1.coeffs()); o.vec("tsetzero", z2.coeffs()); }
  o.end();
}
static void op_layout(Ctx& c) { layout_impl(c, std::make_index_sequence<G::BundleSize>()); }
// the same operation applied to each element on its own, concatenated in element order
template <std::size_t... I> static void belem_impl(Ctx& c, std::index_sequence<I...>) {
  G X = elemA(c), Y = elemD(c); T t = tanB(c);
  auto cat = [](std::initializer_list<Eigen::Matrix<S, Eigen::Dynamic, 1>> l) { int n = 0; for (auto& v : l) n += v.size(); Eigen::Matrix<S, Eigen::Dynamic, 1> r(n); int k = 0; for (auto& v : l) { r.segment(k, v.size()) = v; k += v.size(); } return r; };
  using DV = Eigen::Matrix<S, Eigen::Dynamic, 1>;
  HEAD("belem") o.vec("a", X.coeffs()); o.vec("b", Y.coeffs()); o.vec("t", t.coeffs());
  o.vec("compose", X.compose(Y).coeffs());   o.vec("e_compose", cat({ DV(X.template element<I>().compose(Y.template element<I>()).coeffs())... }));
  o.vec("inverse", X.inverse().coeffs());    o.vec("e_inverse", cat({ DV(X.template element<I>().inverse().coeffs())... }));
  o.vec("between", X.between(Y).coeffs());   o.vec("e_between", cat({ DV(X.template element<I>().between(Y.template element<I>()).coeffs())... }));
  o.vec("log", X.log().coeffs());            o.vec("e_log", cat({ DV(X.template element<I>().log().coeffs())... }));
  o.vec("exp", t.exp().coeffs());            o.vec("e_exp", cat({ DV(t.template element<I>().exp().coeffs())... }));
  o.vec("rplus", X.rplus(t).coeffs());       o.vec("e_rplus", cat({ DV(X.template element<I>().rplus(t.template element<I>()).coeffs())... }));
  o.vec("lminus", X.lminus(Y).coeffs());     o.vec("e_lminus", cat({ DV(X.template element<I>().lminus(Y.template element<I>()).coeffs())... }));
  // the same Bundle operations with the operands given as read-only views (element-wise references unchanged)
  { const Eigen::Map<const G> cX(X.data()), cY(Y.data()); const Eigen::Map<const T> ct(t.data());
    o.vec("v_compose", X.compose(cY).coeffs()); o.vec("v_between", cX.between(cY).coeffs()); o.vec("v_lminus", cX.lminus(Y).coeffs());
    o.vec("v_rplus", cX.rplus(ct).coeffs()); o.vec("v_log", cX.log().coeffs()); o.vec("v_inverse", cX.inverse().coeffs()); o.vec("v_exp", ct.exp().coeffs()); }
  o.end();
}
static void op_belem(Ctx& c) { belem_impl(c, std::make_index_sequence<G::BundleSize>()); }
// writing through element<i>() changes exactly the i-th segment (owning bundle and a Map view of a bundle)
template <std::size_t I> static void bwrite_one(Ctx& c) {
  using E = typename G::template Element<I>;
  G X = elemA(c); E Y = draw_element<E>("generic", "1", "any", "generic", c.r);
  Eigen::Matrix<S, G::RepSize, 1> before = X.coeffs();
  X.template element<I>() = Y;
  std::vector<S> buf(G::RepSize + 8, (S)777); for (int i = 0; i < G::RepSize; ++i) buf[4 + i] = before(i);
  { Eigen::Map<G> V(buf.data() + 4); V.template element<I>() = Y; }
  Eigen::Map<Eigen::Matrix<S, Eigen::Dynamic, 1>> all(buf.data(), buf.size());
  HEAD("bwrite") o.num("idx", (long)I); o.vec("before", before); o.vec("elem", Y.coeffs()); o.vec("after", X.coeffs()); o.vec("viewbuf", all); o.end();
}
template <std::size_t... I> static void bwrite_impl(Ctx& c, std::index_sequence<I...>) { auto l = { (bwrite_one<I>(c), 0)... }; (void)l; }
static void op_bwrite(Ctx& c) { bwrite_impl(c, std::make_index_sequence<G::BundleSize>()); }
#else
static void op_bwrite(Ctx&) {}
static void op_layout(Ctx&) {}
static void op_belem(Ctx&) {}
#endif

int main(int argc, char** argv) {
  if (argc < 4) { std::fprintf(stderr, "usage: %s plan out seed\n", argv[0]); return 2; }
  install_terminate();
  auto plan = read_plan(argv[1]); out().open(argv[2]); uint64_t seed = std::strtoull(argv[3], 0, 10);
  long ln = 0;
  for (auto& pl : plan) {
    ++ln;
    if (pl[1] != KEY) continue;
    Rng r(seed * 1000003ull + ln * 7919ull + std::hash<std::string>()(KEY));
    Ctx c{pl, r, pl[2], pl[3], pl[4], pl[5], pl[6], pl[7], pl[8], pl[9] == "1"};
    int reps = std::max(1, std::atoi(pl[10].c_str()));
    const std::string& op = pl[0];
    for (int k = 0; k < reps; ++k) {
      if (op == "compose") op_compose(c); else if (op == "composex") op_composex(c); else if (op == "inverse") op_inverse(c); else if (op == "act") op_act(c);
      else if (op == "identity") op_identity(c); else if (op == "transform") op_transform(c);
      else if (op == "exp") op_exp(c); else if (op == "log") op_log(c); else if (op == "explog") op_explog(c);
      else if (op == "logtwin") op_logtwin(c); else if (op == "logchain") op_logchain(c);
      else if (op == "rplus") op_rplus(c); else if (op == "lplus") op_lplus(c); else if (op == "rminus") op_rminus(c);
      else if (op == "lminus") op_lminus(c); else if (op == "between") op_between(c); else if (op == "tplus") op_tplus(c);
      else if (op == "jacs") op_jacs(c); else if (op == "adj") op_adj(c); else if (op == "adjexp") op_adjexp(c);
      else if (op == "generator") { op_generator(c); break; } else if (op == "algebra") op_algebra(c);
      else if (op == "isapprox") op_isapprox(c);
      else if (op == "alias") op_alias(c);
      else if (op == "layout") { op_layout(c); break; } else if (op == "belem") op_belem(c); else if (op == "bwrite") op_bwrite(c);
      else { std::fprintf(stderr, "unknown op %s\n", op.c_str()); return 3; }
    }
  }
  out().close();
  return 0;
}
