// Recorder for C13: constructors, setters, accessors, cast<>() and the validation of rotation data.
// Build per group like rec_core:  -DREC_GROUP='manif::SE3<double>' -DREC_KEY='"SE3_d"', once WITHOUT
// -DNDEBUG (MANIF_ASSERT active, "mode":"assert") and once WITH -DNDEBUG ("mode":"ndebug").
// Usage: rec_ctor <plan> <out.ndjson> <seed>;  plan line:  ctor key prop - - - - - - - reps
//
// No expected value and no tolerance lives here.  For the group it is built for the recorder calls
// every public constructor / setter form over an argument catalogue and writes down
//   {"e":"ctor","form":..,"rs":<how the rotation was supplied>,"args":{argument bit patterns},
//    "exc":"none"|"invalid_argument"|"other","r":[coefficients of the constructed element]}
// followed, for every successfully constructed element, by
//   {"e":"acc","a":[coefficients],"rot":..,"tr":transform(),"iso":isometry(),"trans":..,"quat":..,
//    "angle":..,"real":..,...,"fb_*":[coefficients of the element re-constructed from the accessors]}
// plus {"e":"norm"} (normalize() on non-unit data and re-construction) and {"e":"cast"} events.
// Angles spanning many turns are logged as they were passed together with the integer number of whole
// turns "k" nearest to theta/2pi (any integer is valid: the model subtracts exactly 2*pi*k).
#include "rec.h"
#include <complex>
using namespace rec;
using G = REC_GROUP;
static const char* KEY = REC_KEY;
#ifdef NDEBUG
static const char* MODE = "ndebug";
#else
static const char* MODE = "assert";
#endif
static const double PI = 3.14159265358979323846;

// ---------------------------------------------------------------------------------------------
// JSON object of named argument bit patterns
struct J {
  std::string s;
  void k(const char* n) { if (!s.empty()) s += ","; s += "\""; s += n; s += "\":"; }
  static std::string b(double d) { uint64_t u; std::memcpy(&u, &d, 8); char buf[48]; std::snprintf(buf, sizeof buf, "[%d,%d]", (int32_t)(u >> 32), (int32_t)(u & 0xffffffffu)); return buf; }
  template <class T> J& sc(const char* n, T v) { k(n); s += b((double)v); return *this; }
  J& num(const char* n, long v) { k(n); s += std::to_string(v); return *this; }
  template <class V> J& vec(const char* n, const V& v) { k(n); s += "["; for (int i = 0; i < v.size(); ++i) { if (i) s += ","; s += b((double)v(i)); } s += "]"; return *this; }
  template <class M> J& mat(const char* n, const M& m) {
    k(n); s += "[";
    for (int i = 0; i < m.rows(); ++i) { if (i) s += ","; s += "["; for (int j = 0; j < m.cols(); ++j) { if (j) s += ","; s += b((double)m(i, j)); } s += "]"; }
    s += "]"; return *this; }
  std::string obj() const { return "{" + s + "}"; }
};

template <class GG> static void ev_head(Out& o, const char* e, const std::string& form) {
  o.begin(e); o.str("p", "C13"); o.raw("g", Info<GG>::name()); o.str("sc", ScalarName<typename GG::Scalar>::n());
  o.str("mode", MODE); o.str("form", form); o.str("st", form + "," + MODE);
}

// ---------------------------------------------------------------------------------------------
// accessor events (only the accessors the group has) with the feedback constructions
template <class GG, class F> static void fb(Out& o, const char* name, F f) {
  std::string ok = std::string("fb_") + name, bad = std::string("fbx_") + name;
  try { GG Y = f(); o.vec(ok.c_str(), Y.coeffs()); }
  catch (const manif::invalid_argument&) { o.str(bad.c_str(), "invalid_argument"); }
  catch (const std::exception&) { o.str(bad.c_str(), "other"); }
}
template <class GG> struct Acc;
template <class S> struct Acc<manif::SO2<S>> {
  using GG = manif::SO2<S>;
  static void put(Out& o, const GG& X) {
    o.mat("rot", X.rotation()); o.mat("tr", X.transform());
    o.sc("angle", X.angle()); o.sc("real", X.real()); o.sc("imag", X.imag());
    fb<GG>(o, "parts", [&] { return GG(X.real(), X.imag()); });
    fb<GG>(o, "angle", [&] { return GG(X.angle()); });
  }
};
template <class S> struct Acc<manif::SE2<S>> {
  using GG = manif::SE2<S>;
  static void put(Out& o, const GG& X) {
    o.mat("rot", X.rotation()); o.mat("tr", X.transform()); o.mat("iso", X.isometry().matrix());
    o.vec("trans", X.translation());
    o.sc("angle", X.angle()); o.sc("real", X.real()); o.sc("imag", X.imag()); o.sc("x", X.x()); o.sc("y", X.y());
    fb<GG>(o, "parts", [&] { return GG(X.x(), X.y(), X.real(), X.imag()); });
    fb<GG>(o, "angle", [&] { return GG(X.x(), X.y(), X.angle()); });
    fb<GG>(o, "tc", [&] { return GG(X.translation(), std::complex<S>(X.real(), X.imag())); });
    fb<GG>(o, "iso", [&] { return GG(X.isometry()); });
  }
};
template <class S> struct Acc<manif::SO3<S>> {
  using GG = manif::SO3<S>;
  static void put(Out& o, const GG& X) {
    o.mat("rot", X.rotation()); o.mat("tr", X.transform()); o.vec("quat", X.quat().coeffs());
    o.sc("x", X.x()); o.sc("y", X.y()); o.sc("z", X.z()); o.sc("w", X.w());
    fb<GG>(o, "parts", [&] { return GG(X.quat()); });
    fb<GG>(o, "xyzw", [&] { return GG(X.x(), X.y(), X.z(), X.w()); });
  }
};
template <class S> struct Acc<manif::SE3<S>> {
  using GG = manif::SE3<S>;
  static void put(Out& o, const GG& X) {
    o.mat("rot", X.rotation()); o.mat("tr", X.transform()); o.mat("iso", X.isometry().matrix());
    o.vec("trans", X.translation()); o.vec("quat", X.quat().coeffs());
    o.vec("asso3c", X.asSO3().coeffs()); { GG Xm = X; o.vec("asso3m", Xm.asSO3().coeffs()); }   // the sub-group views (const / mutable)
    o.sc("x", X.x()); o.sc("y", X.y()); o.sc("z", X.z());
    fb<GG>(o, "parts", [&] { return GG(X.translation(), X.quat()); });
    fb<GG>(o, "so3", [&] { return GG(X.translation(), manif::SO3<S>(X.quat())); });
    fb<GG>(o, "iso", [&] { return GG(X.isometry()); });
  }
};
template <class S, class GG> static Eigen::Transform<S, 3, Eigen::Isometry> iso_of(const GG& X) {
  Eigen::Transform<S, 3, Eigen::Isometry> h = Eigen::Transform<S, 3, Eigen::Isometry>::Identity();
  h.linear() = X.rotation(); h.translation() = X.translation(); return h;
}
template <class S> struct Acc<manif::SE_2_3<S>> {
  using GG = manif::SE_2_3<S>;
  static void put(Out& o, const GG& X) {
    o.mat("rot", X.rotation()); o.mat("tr", X.transform()); o.mat("iso", X.isometry());
    o.vec("trans", X.translation()); o.vec("quat", X.quat().coeffs()); o.vec("vel", X.linearVelocity());
    o.vec("asso3c", X.asSO3().coeffs()); { GG Xm = X; o.vec("asso3m", Xm.asSO3().coeffs()); }
    o.sc("x", X.x()); o.sc("y", X.y()); o.sc("z", X.z()); o.sc("vx", X.vx()); o.sc("vy", X.vy()); o.sc("vz", X.vz());
    fb<GG>(o, "parts", [&] { return GG(X.translation(), X.quat(), X.linearVelocity()); });
    fb<GG>(o, "so3", [&] { return GG(X.translation(), manif::SO3<S>(X.quat()), X.linearVelocity()); });
    fb<GG>(o, "iso", [&] { return GG(iso_of<S>(X), X.linearVelocity()); });
  }
};
template <class S> struct Acc<manif::SGal3<S>> {
  using GG = manif::SGal3<S>;
  static void put(Out& o, const GG& X) {
    o.mat("rot", X.rotation()); o.mat("tr", X.transform()); o.mat("iso", X.isometry());
    o.vec("trans", X.translation()); o.vec("quat", X.quat().coeffs()); o.vec("vel", X.linearVelocity()); o.sc("time", X.t());
    o.vec("asso3c", X.asSO3().coeffs()); { GG Xm = X; o.vec("asso3m", Xm.asSO3().coeffs()); }
    o.sc("x", X.x()); o.sc("y", X.y()); o.sc("z", X.z()); o.sc("vx", X.vx()); o.sc("vy", X.vy()); o.sc("vz", X.vz());
    fb<GG>(o, "parts", [&] { return GG(X.translation(), X.quat(), X.linearVelocity(), X.t()); });
    fb<GG>(o, "so3", [&] { return GG(X.translation(), manif::SO3<S>(X.quat()), X.linearVelocity(), X.t()); });
    fb<GG>(o, "iso", [&] { return GG(iso_of<S>(X), X.linearVelocity(), X.t()); });
  }
};
template <class S, unsigned int N> struct Acc<manif::Rn<S, N>> {
  using GG = manif::Rn<S, N>;
  static void put(Out& o, const GG& X) {
    o.mat("tr", X.transform());
    fb<GG>(o, "parts", [&] { return GG(X.coeffs()); });
  }
};

template <class GG> static void acc_event(const std::string& form, const Eigen::Matrix<typename GG::Scalar, GG::RepSize, 1>& c) {
  GG X; X.coeffs() = c;            // plain coefficient write: the accessors see exactly the constructed coefficients
  Out& o = out(); ev_head<GG>(o, "acc", form); o.vec("a", X.coeffs());
  Acc<GG>::put(o, X); o.end();
}

// one construction: event + accessor event when it succeeded
template <class GG, class F> static void ctor_ev(const std::string& form, const char* rs, const J& args, F make) {
  using Coef = Eigen::Matrix<typename GG::Scalar, GG::RepSize, 1>;
  Out& o = out(); ev_head<GG>(o, "ctor", form); o.str("rs", rs); o.raw("args", args.obj());
  bool ok = false; Coef c;
  try { GG X = make(); c = X.coeffs(); ok = true; o.str("exc", "none"); o.vec("r", c); }
  catch (const manif::invalid_argument&) { o.str("exc", "invalid_argument"); }
  catch (const std::exception&) { o.str("exc", "other"); }
  o.end();
  if (ok) acc_event<GG>(form, c);
}

// ---------------------------------------------------------------------------------------------
// argument catalogues
template <class S> struct Ang { S th; long k; };
template <class S> static Ang<S> mk_ang(double v) { S t = (S)v; return Ang<S>{t, (long)std::nearbyint((double)t / (2 * PI))}; }
template <class S> static std::vector<Ang<S>> angles(Rng& r, int reps) {
  std::vector<double> v;
  v.push_back(0.0);
  v.push_back(1e3 * 2 * PI + r.u(-3, 3)); v.push_back(-1e3 * 2 * PI + r.u(-3, 3));           // many periods
  v.push_back(r.i(1, 999) * 2 * PI + r.u(-PI, PI)); v.push_back(-r.i(1, 999) * 2 * PI + r.u(-PI, PI));
  for (int m = -4; m <= 4; ++m) if (m) v.push_back((double)((S)(PI / 2) * (S)m));              // multiples of pi/2
  const S pf = (S)PI;
  v.push_back(PI - 1e-9); v.push_back(-(PI - 1e-9)); v.push_back(PI + 1e-9); v.push_back(-(PI + 1e-9));
  v.push_back((double)pf); v.push_back(-(double)pf);
  v.push_back((double)std::nextafter(pf, (S)0)); v.push_back(-(double)std::nextafter(pf, (S)0));
  v.push_back((double)std::nextafter(pf, (S)4)); v.push_back(-(double)std::nextafter(pf, (S)4));
  v.push_back(draw_theta<S>("tiny", r)); v.push_back(-draw_theta<S>("tiny", r));
  v.push_back(draw_theta<S>("denormal", r)); v.push_back(-draw_theta<S>("denormal", r));
  v.push_back(draw_theta<S>("small", r)); v.push_back(-draw_theta<S>("at_sw", r));
  for (int i = 0; i < reps; ++i) { v.push_back(r.u(-PI, PI)); v.push_back(r.u(-20, 20)); }
  std::vector<Ang<S>> a; for (double x : v) a.push_back(mk_ang<S>(x)); return a;
}
static int g_lin = 0;
static const double MAGS[6] = {0.0, 1e-8, 1e-3, 1.0, 1e3, 1e6};
static double lin_mag() { return MAGS[(g_lin++) % 6]; }
template <class S, int N> static Eigen::Matrix<S, N, 1> lin_vec(Rng& r) {
  const double m = lin_mag(); Eigen::Matrix<S, N, 1> v; for (int i = 0; i < N; ++i) v(i) = (S)(m * r.u(0.3, 1.0) * r.sign()); return v;
}
template <class S> static S lin_sc(Rng& r) { return (S)(lin_mag() * r.u(0.3, 1.0) * r.sign()); }
template <class S> static Eigen::Matrix<S, 3, 1> unit3(Rng& r) {
  Eigen::Matrix<S, 3, 1> a((S)r.u(-1, 1), (S)r.u(-1, 1), (S)r.u(-1, 1)); a.normalize(); return a;
}
template <class S> static std::vector<Eigen::Matrix<S, 3, 1>> axes(Rng& r) {
  using V3 = Eigen::Matrix<S, 3, 1>;
  std::vector<V3> a = {V3::UnitX(), V3::UnitY(), V3::UnitZ(), -V3::UnitX(), -V3::UnitY(), -V3::UnitZ()};
  for (int i = 0; i < 3; ++i) a.push_back(unit3<S>(r));
  return a;
}
// unit quaternions (x,y,z,w), normalised in the scalar type: both hemispheres, w = 0, w ~ 0, tiny vector part
template <class S> static std::vector<Eigen::Matrix<S, 4, 1>> quats(Rng& r, int reps) {
  using V4 = Eigen::Matrix<S, 4, 1>; std::vector<V4> q;
  auto add = [&](double x, double y, double z, double w) { V4 v((S)x, (S)y, (S)z, (S)w); v.normalize(); q.push_back(v); };
  add(0, 0, 0, 1); add(0, 0, 0, -1); add(1, 0, 0, 0); add(0, 1, 0, 0); add(0, 0, 1, 0); add(0, -1, 0, 0);
  for (double w : {1e-9, -1e-9, 1e-17, -1e-5}) { auto a = unit3<S>(r); add(a(0), a(1), a(2), w); }
  for (double w : {1.0, -1.0}) { auto a = unit3<S>(r); add(1e-9 * a(0), 1e-9 * a(1), 1e-9 * a(2), w); }
  add(0.9, 0.1, -0.2, -0.3); add(0.1, -0.9, 0.2, -0.3); add(-0.2, 0.1, 0.9, -0.3); add(0.5, 0.5, 0.5, -0.5); add(-0.5, 0.5, -0.5, 0.5);
  for (int i = 0; i < reps; ++i) {
    V4 v((S)r.u(-1, 1), (S)r.u(-1, 1), (S)r.u(-1, 1), (S)r.u(0, 1)); v.normalize(); q.push_back(v); q.push_back(-v);
  }
  return q;
}
// unit complex numbers (re, im)
template <class S> static std::vector<Eigen::Matrix<S, 2, 1>> cplxs(Rng& r, int reps) {
  using V2 = Eigen::Matrix<S, 2, 1>; std::vector<V2> c;
  auto add = [&](double re, double im) { V2 v((S)re, (S)im); v.normalize(); c.push_back(v); };
  add(1, 0); add(-1, 0); add(0, 1); add(0, -1); add(-1, 1e-17); add(-1, -1e-17); add(-1, 1e-9); add(-1, -1e-9); add(1, 1e-9); add(1e-9, 1); add(-1e-9, -1);
  for (int i = 0; i < reps + 2; ++i) { double th = r.u(-PI, PI); add(std::cos(th), std::sin(th)); }
  return c;
}
static const double THR_S[] = {0, 0.5, -0.5, 0.9, -0.9, 0.95, -0.95, 0.99, -0.99, 1.01, -1.01, 1.05, -1.05, 1.1, -1.1, 2, -2, 100, -100};
// rotation data scaled by (1 + s eps)
template <class S, class V> static V scaled(const V& q, double s) { return (q * (S)(1.0 + s * (double)manif::Constants<S>::eps)).eval(); }

// ---------------------------------------------------------------------------------------------
// forms common to every group: raw coefficients, copies, assignments, setIdentity, cast, normalize
template <class GG> struct Common {
  using S = typename GG::Scalar; using Coef = Eigen::Matrix<S, GG::RepSize, 1>; using I = Info<GG>;
  static constexpr int NR = I::rot == COMPLEX ? 2 : I::rot == QUAT ? 4 : 0;
  // coefficient vector with linear coefficients from the magnitude cycle and the given rotation coefficients
  template <class V> static Coef coef(Rng& r, const V& rotc) {
    Coef c; const double m = lin_mag();
    for (int i = 0; i < GG::RepSize; ++i) c(i) = (S)(m * r.u(0.3, 1.0) * r.sign());
    for (int i = 0; i < NR; ++i) c(I::coff + i) = rotc(i);
    return c;
  }
  static std::vector<Coef> samples(Rng& r, int reps) {
    std::vector<Coef> v;
    if (I::rot == COMPLEX) for (auto& z : cplxs<S>(r, reps)) v.push_back(coef(r, z));
    else if (I::rot == QUAT) for (auto& q : quats<S>(r, reps)) v.push_back(coef(r, q));
    else for (int i = 0; i < 6 + reps; ++i) v.push_back(coef(r, Coef()));
    return v;
  }
  static J cargs(const Coef& c) { J j; j.vec("c", c); return j; }
  static void raw_forms(const Coef& c) {
    ctor_ev<GG>("coeffs", "coeffs", cargs(c), [&] { return GG(c); });
    ctor_ev<GG>("coeffs_move", "coeffs", cargs(c), [&] { Coef t = c; return GG(std::move(t)); });
  }
  static void copy_forms(const Coef& c) {
    GG X; X.coeffs() = c;
    ctor_ev<GG>("copy", "copy", cargs(c), [&] { GG Y(X); return Y; });
    ctor_ev<GG>("copy_base", "copy", cargs(c), [&] { const typename manif::internal::traits<GG>::Base& b = X; GG Y(b); return Y; });
    ctor_ev<GG>("copy_map", "copy", cargs(c), [&] { Coef d = c; Eigen::Map<GG> m(d.data()); GG Y(m); return Y; });
    ctor_ev<GG>("move", "copy", cargs(c), [&] { GG T(X); GG Y(std::move(T)); return Y; });
    ctor_ev<GG>("assign", "copy", cargs(c), [&] { GG Y = GG::Identity(); Y = X; return Y; });
    ctor_ev<GG>("assign_map", "copy", cargs(c), [&] { Coef d = c; Eigen::Map<GG> m(d.data()); GG Y = GG::Identity(); Y = m; return Y; });
    ctor_ev<GG>("assign_coeffs", "coeffs", cargs(c), [&] { GG Y = GG::Identity(); Y = c; return Y; });
    ctor_ev<GG>("map_write", "coeffs", cargs(c), [&] { Coef d = Coef::Zero(); Eigen::Map<GG> m(d.data()); m = X; GG Y(m); return Y; });
  }
  static void identity_forms(const Coef& c) {
    J j; j.vec("c0", c);
    ctor_ev<GG>("setIdentity", "identity", j, [&] { GG X; X.coeffs() = c; X.setIdentity(); return X; });
    ctor_ev<GG>("Identity", "identity", j, [&] { return GG::Identity(); });
  }
  template <class Y> static void cast_ev(const Coef& c, const char* to) {
    GG X; X.coeffs() = c; Out& o = out(); ev_head<GG>(o, "cast", std::string("cast_") + to); o.str("to", to); o.vec("a", c);
    try { auto R = X.template cast<Y>(); o.str("exc", "none"); o.vec("r", R.coeffs()); }
    catch (const manif::invalid_argument&) { o.str("exc", "invalid_argument"); }
    catch (const std::exception&) { o.str("exc", "other"); }
    o.end();
  }
  static void cast_forms(const Coef& c) { cast_ev<float>(c, "f"); cast_ev<double>(c, "d"); }

  // threshold on the raw-coefficient forms; assignment from raw coefficients is recorded with them
  static void thr_raw(Rng& r, const Coef& unit) {
    for (double s : THR_S) {
      Coef c = unit; for (int i = 0; i < NR; ++i) c(I::coff + i) = (S)(unit(I::coff + i) * (S)(1.0 + s * (double)manif::Constants<S>::eps));
      ctor_ev<GG>("coeffs", "coeffs", cargs(c), [&] { return GG(c); });
      ctor_ev<GG>("coeffs_move", "coeffs", cargs(c), [&] { Coef t = c; return GG(std::move(t)); });
      ctor_ev<GG>("copy_map", "coeffs", cargs(c), [&] { Coef d = c; Eigen::Map<GG> m(d.data()); GG Y(m); return Y; });
      ctor_ev<GG>("assign_coeffs", "coeffs", cargs(c), [&] { GG Y = GG::Identity(); Y = c; return Y; });
    }
  }
};
// normalize(): only groups with a rotation part have it
template <class GG, bool HAS = (Info<GG>::rot != NONE)> struct Norm {
  using S = typename GG::Scalar; using Coef = Eigen::Matrix<S, GG::RepSize, 1>; using I = Info<GG>;
  static void one(const Coef& c0, const char* form) {
    Out& o = out(); ev_head<GG>(o, "norm", form); o.vec("c", c0);
    GG X; X.coeffs() = c0; X.normalize(); Coef c1 = X.coeffs(); o.vec("r", c1);
    try { GG Y(c1); o.str("rexc", "none"); o.vec("r2", Y.coeffs()); }
    catch (const manif::invalid_argument&) { o.str("rexc", "invalid_argument"); }
    catch (const std::exception&) { o.str("rexc", "other"); }
    o.end();
    acc_event<GG>(form, c1);
  }
  static void run(Rng& r, const std::vector<Coef>& units, int reps) {
    const int NR = Common<GG>::NR; size_t ix = 0;
    for (double s : THR_S) {                      // data on both sides of the acceptance threshold
      Coef c = units[(ix++) % units.size()];
      for (int i = 0; i < NR; ++i) c(I::coff + i) = (S)(c(I::coff + i) * (S)(1.0 + s * (double)manif::Constants<S>::eps));
      one(c, "normalize_thr");
    }
    // unit data scaled by 1 +- 10^e, e log-uniform in [-13, 0.3]: every size of norm error between the threshold and gross
    for (int k = 0; k < 24 + reps; ++k) {
      Coef c = units[(ix++) % units.size()];
      double f = 1.0 + r.sign() * std::pow(10.0, r.u(-13.0, 0.3)); if (f < 0.05) f = 0.05;
      for (int i = 0; i < NR; ++i) c(I::coff + i) = (S)(c(I::coff + i) * (S)f);
      one(c, "normalize_scaled");
    }
    for (double sc : {1e-8, 1e-3, 0.5, 3.0, 1e3, 1e6}) for (int k = 0; k < 1 + reps / 4; ++k) {   // any non-degenerate data
      Coef c = units[(ix++) % units.size()];
      for (int i = 0; i < NR; ++i) c(I::coff + i) = (S)(r.u(-1, 1) * sc);
      one(c, "normalize_any");
    }
  }
};
template <class GG> struct Norm<GG, false> { template <class U> static void run(Rng&, const U&, int) {} };

template <class GG> static void run_common(Rng& r, int reps) {
  using C = Common<GG>;
  auto smp = C::samples(r, reps);
  for (auto& c : smp) C::raw_forms(c);
  for (size_t i = 0; i < smp.size(); i += 3) C::copy_forms(smp[i]);
  for (size_t i = 1; i < smp.size(); i += 5) C::identity_forms(smp[i]);
  for (auto& c : smp) C::cast_forms(c);
  if (C::NR) for (int k = 0; k < 1 + reps / 8; ++k) C::thr_raw(r, smp[r.i(0, (int)smp.size() - 1)]);
  Norm<GG>::run(r, smp, reps);
}

// ---------------------------------------------------------------------------------------------
// SO2 / SE2
template <class GG> struct Forms;
template <class S> struct Forms<manif::SO2<S>> {
  using GG = manif::SO2<S>; using V2 = Eigen::Matrix<S, 2, 1>;
  static void run(Rng& r, int reps) {
    for (auto& a : angles<S>(r, reps)) { J j; j.sc("theta", a.th).num("k", a.k); ctor_ev<GG>("SO2_angle", "angle", j, [&] { return GG(a.th); }); }
    auto cs = cplxs<S>(r, reps);
    for (auto& z : cs) { J j; j.sc("re", z(0)).sc("im", z(1)); ctor_ev<GG>("SO2_real_imag", "complex", j, [&] { return GG(z(0), z(1)); }); }
    for (int k = 0; k < 1 + reps / 8; ++k) { const V2 u = cs[r.i(0, (int)cs.size() - 1)];
      for (double s : THR_S) { V2 z = scaled<S>(u, s); J j; j.sc("re", z(0)).sc("im", z(1)); ctor_ev<GG>("SO2_real_imag", "complex", j, [&] { return GG(z(0), z(1)); }); } }
  }
};
template <class S> struct Forms<manif::SE2<S>> {
  using GG = manif::SE2<S>; using V2 = Eigen::Matrix<S, 2, 1>; using Iso = Eigen::Transform<S, 2, Eigen::Isometry>;
  static void cforms(Rng& r, const V2& z) {
    { V2 t = lin_vec<S, 2>(r); J j; j.vec("tr", t).sc("re", z(0)).sc("im", z(1)); ctor_ev<GG>("SE2_xy_real_imag", "complex", j, [&] { return GG(t(0), t(1), z(0), z(1)); }); }
    { V2 t = lin_vec<S, 2>(r); J j; j.vec("tr", t).sc("re", z(0)).sc("im", z(1)); ctor_ev<GG>("SE2_xy_complex", "complex", j, [&] { return GG(t(0), t(1), std::complex<S>(z(0), z(1))); }); }
    { V2 t = lin_vec<S, 2>(r); J j; j.vec("tr", t).sc("re", z(0)).sc("im", z(1)); ctor_ev<GG>("SE2_trans_complex", "complex", j, [&] { return GG(t, std::complex<S>(z(0), z(1))); }); }
  }
  static void run(Rng& r, int reps) {
    for (auto& a : angles<S>(r, reps)) { V2 t = lin_vec<S, 2>(r); J j; j.vec("tr", t).sc("theta", a.th).num("k", a.k);
      ctor_ev<GG>("SE2_xy_theta", "angle", j, [&] { return GG(t(0), t(1), a.th); }); }
    auto cs = cplxs<S>(r, reps);
    for (auto& z : cs) cforms(r, z);
    for (auto& z : cs) {      // Eigen isometry whose linear part is the rotation matrix of the unit complex number
      Iso h = Iso::Identity(); Eigen::Matrix<S, 2, 2> R; R << z(0), -z(1), z(1), z(0); h.linear() = R; h.translation() = lin_vec<S, 2>(r);
      J j; j.mat("iso", h.matrix()); ctor_ev<GG>("SE2_isometry", "iso", j, [&] { return GG(h); });
    }
    for (int k = 0; k < 1 + reps / 8; ++k) { const V2 u = cs[r.i(0, (int)cs.size() - 1)]; for (double s : THR_S) cforms(r, scaled<S>(u, s)); }
  }
};

// ---------------------------------------------------------------------------------------------
// groups with a quaternion: SO3, SE3, SE_2_3, SGal3
template <class S> struct LinA { Eigen::Matrix<S, 3, 1> t, v; S time; };
template <class GG> struct Q;
template <class S> struct Q<manif::SO3<S>> {
  using GG = manif::SO3<S>; using L = LinA<S>; using Qt = Eigen::Quaternion<S>; using AA = Eigen::AngleAxis<S>; using Iso = Eigen::Transform<S, 3, Eigen::Isometry>;
  enum { HAS_T = 0, HAS_V = 0, HAS_TIME = 0, HAS_ISO = 0, HAS_SO3 = 0 };
  static const char* n() { return "SO3"; }
  static GG from_q(const L&, const Qt& q) { return GG(q); }
  static GG from_aa(const L&, const AA& a) { return GG(a); }
  static GG from_so3(const L&, const manif::SO3<S>& s) { return GG(s); }
  static GG from_rpy(const L&, S ro, S pi, S ya) { return GG(ro, pi, ya); }
  static GG from_iso(const L&, const Iso&) { return GG(); }
};
template <class S> struct Q<manif::SE3<S>> {
  using GG = manif::SE3<S>; using L = LinA<S>; using Qt = Eigen::Quaternion<S>; using AA = Eigen::AngleAxis<S>; using Iso = Eigen::Transform<S, 3, Eigen::Isometry>;
  enum { HAS_T = 1, HAS_V = 0, HAS_TIME = 0, HAS_ISO = 1, HAS_SO3 = 1 };
  static const char* n() { return "SE3"; }
  static GG from_q(const L& l, const Qt& q) { return GG(l.t, q); }
  static GG from_aa(const L& l, const AA& a) { return GG(l.t, a); }
  static GG from_so3(const L& l, const manif::SO3<S>& s) { return GG(l.t, s); }
  static GG from_rpy(const L& l, S ro, S pi, S ya) { return GG(l.t(0), l.t(1), l.t(2), ro, pi, ya); }
  static GG from_iso(const L&, const Iso& h) { return GG(h); }
};
template <class S> struct Q<manif::SE_2_3<S>> {
  using GG = manif::SE_2_3<S>; using L = LinA<S>; using Qt = Eigen::Quaternion<S>; using AA = Eigen::AngleAxis<S>; using Iso = Eigen::Transform<S, 3, Eigen::Isometry>;
  enum { HAS_T = 1, HAS_V = 1, HAS_TIME = 0, HAS_ISO = 1, HAS_SO3 = 1 };
  static const char* n() { return "SE_2_3"; }
  static GG from_q(const L& l, const Qt& q) { return GG(l.t, q, l.v); }
  static GG from_aa(const L& l, const AA& a) { return GG(l.t, a, l.v); }
  static GG from_so3(const L& l, const manif::SO3<S>& s) { return GG(l.t, s, l.v); }
  static GG from_rpy(const L& l, S ro, S pi, S ya) { return GG(l.t(0), l.t(1), l.t(2), ro, pi, ya, l.v(0), l.v(1), l.v(2)); }
  static GG from_iso(const L& l, const Iso& h) { return GG(h, l.v); }
};
template <class S> struct Q<manif::SGal3<S>> {
  using GG = manif::SGal3<S>; using L = LinA<S>; using Qt = Eigen::Quaternion<S>; using AA = Eigen::AngleAxis<S>; using Iso = Eigen::Transform<S, 3, Eigen::Isometry>;
  enum { HAS_T = 1, HAS_V = 1, HAS_TIME = 1, HAS_ISO = 1, HAS_SO3 = 1 };
  static const char* n() { return "SGal3"; }
  static GG from_q(const L& l, const Qt& q) { return GG(l.t, q, l.v, l.time); }
  static GG from_aa(const L& l, const AA& a) { return GG(l.t, a, l.v, l.time); }
  static GG from_so3(const L& l, const manif::SO3<S>& s) { return GG(l.t, s, l.v, l.time); }
  static GG from_rpy(const L& l, S ro, S pi, S ya) { return GG(l.t(0), l.t(1), l.t(2), ro, pi, ya, l.v(0), l.v(1), l.v(2), l.time); }
  static GG from_iso(const L& l, const Iso& h) { return GG(h, l.v, l.time); }
};
// setters: quat(...) of SO3 and SE3, translation(...) of SE3; SE_2_3 and SGal3 have none
template <class GG> struct Setters { template <class V4, class L, class F> static void quat_forms(Rng&, const V4&, const L&, F) {} template <class L, class F> static void other(Rng&, const L&, F) {} };
template <class S> struct Setters<manif::SO3<S>> {
  using GG = manif::SO3<S>; using V4 = Eigen::Matrix<S, 4, 1>;
  template <class L, class F> static void quat_forms(Rng& r, const V4& q, const L& l, F args) {
    auto q0 = quats<S>(r, 0)[r.i(0, 10)];
    ctor_ev<GG>("SO3_set_quat", "quat", args(l, q), [&] { GG X; X.coeffs() = q0; X.quat(Eigen::Quaternion<S>(q)); return X; });
    ctor_ev<GG>("SO3_set_quat_vec", "quat", args(l, q), [&] { GG X; X.coeffs() = q0; X.quat(q); return X; });
  }
  template <class L, class F> static void other(Rng&, const L&, F) {}
};
template <class S> struct Setters<manif::SE3<S>> {
  using GG = manif::SE3<S>; using V4 = Eigen::Matrix<S, 4, 1>; using V3 = Eigen::Matrix<S, 3, 1>;
  template <class L, class F> static void quat_forms(Rng& r, const V4& q, const L& l, F args) {
    auto q0 = quats<S>(r, 0)[r.i(0, 10)];
    // the element before the call carries the translation l.t: the setter must leave it untouched
    ctor_ev<GG>("SE3_set_quat", "quat", args(l, q), [&] { GG X; X.coeffs() << l.t, q0; X.quat(Eigen::Quaternion<S>(q)); return X; });
    ctor_ev<GG>("SE3_set_quat_vec", "quat", args(l, q), [&] { GG X; X.coeffs() << l.t, q0; X.quat(q); return X; });
    ctor_ev<GG>("SE3_set_quat_so3", "quat", args(l, q), [&] { GG X; X.coeffs() << l.t, q0; manif::SO3<S> s; s.coeffs() = q; X.quat(s); return X; });
  }
  template <class L, class F> static void other(Rng& r, const L& l, F args) {
    // translation(t) on an element with quaternion q keeps q
    for (auto& q : quats<S>(r, 0)) { L m = l; m.t = lin_vec<S, 3>(r);
      ctor_ev<GG>("SE3_set_translation", "quat", args(m, q), [&] { GG X; X.coeffs() << lin_vec<S, 3>(r), q; X.translation(m.t); return X; }); }
  }
};

template <class GG> struct QForms {
  using S = typename GG::Scalar; using D = Q<GG>; using L = LinA<S>; using V3 = Eigen::Matrix<S, 3, 1>; using V4 = Eigen::Matrix<S, 4, 1>;
  using Qt = Eigen::Quaternion<S>; using AA = Eigen::AngleAxis<S>; using Iso = Eigen::Transform<S, 3, Eigen::Isometry>;
  static std::string nm(const char* suffix) { return std::string(D::n()) + "_" + suffix; }
  static L lin(Rng& r) { L l; l.t = lin_vec<S, 3>(r); l.v = lin_vec<S, 3>(r); l.time = lin_sc<S>(r); return l; }
  static void put_lin(J& j, const L& l) { if (D::HAS_T) j.vec("tr", l.t); if (D::HAS_V) j.vec("vel", l.v); if (D::HAS_TIME) j.sc("time", l.time); }
  static J qargs(const L& l, const V4& q) { J j; put_lin(j, l); j.vec("q", q); return j; }
  // forms taking quaternion-like data (also used for the threshold events)
  static void qforms(Rng& r, const V4& q) {
    { L l = lin(r); ctor_ev<GG>(nm("quat"), "quat", qargs(l, q), [&] { return D::from_q(l, Qt(q)); }); }
    // sub-group element (for SO3 itself that is the copy constructor, covered by the common forms)
    if (D::HAS_SO3) { L l = lin(r); ctor_ev<GG>(nm("so3"), "quat", qargs(l, q), [&] { manif::SO3<S> s; s.coeffs() = q; return D::from_so3(l, s); }); }
    xyzw(r, q, std::is_same<GG, manif::SO3<S>>());
    { L l = lin(r); Setters<GG>::quat_forms(r, q, l, [](const L& a, const V4& b) { return qargs(a, b); }); }
  }
  static void xyzw(Rng& r, const V4& q, std::true_type) { L l = lin(r); ctor_ev<GG>(nm("xyzw"), "quat", qargs(l, q), [&] { return GG(q(0), q(1), q(2), q(3)); }); }
  static void xyzw(Rng&, const V4&, std::false_type) {}
  static void rpy(Rng& r, const Ang<S>& ro, const Ang<S>& pi, const Ang<S>& ya) {
    L l = lin(r); J j; put_lin(j, l); j.sc("roll", ro.th).num("kr", ro.k).sc("pitch", pi.th).num("kp", pi.k).sc("yaw", ya.th).num("ky", ya.k);
    ctor_ev<GG>(nm("rpy"), "rpy", j, [&] { return D::from_rpy(l, ro.th, pi.th, ya.th); });
  }
  static void iso(Rng& r, const V4& q, std::true_type) {
    L l = lin(r); Iso h = Iso::Identity(); h.linear() = Qt(q).toRotationMatrix(); h.translation() = l.t;
    J j; j.mat("iso", h.matrix()); if (D::HAS_V) j.vec("vel", l.v); if (D::HAS_TIME) j.sc("time", l.time);
    ctor_ev<GG>(nm("isometry"), "iso", j, [&] { return D::from_iso(l, h); });
  }
  static void iso(Rng&, const V4&, std::false_type) {}
  static void run(Rng& r, int reps) {
    auto qs = quats<S>(r, reps);
    for (auto& q : qs) qforms(r, q);
    for (auto& q : qs) iso(r, q, std::integral_constant<bool, D::HAS_ISO != 0>());
    auto as = angles<S>(r, reps); auto ax = axes<S>(r); size_t ia = 0;
    for (auto& a : as) { V3 u = ax[(ia++) % ax.size()]; L l = lin(r); J j; put_lin(j, l); j.sc("angle", a.th).num("k", a.k).vec("axis", u);
      ctor_ev<GG>(nm("angleaxis"), "aa", j, [&] { return D::from_aa(l, AA(a.th, u)); }); }
    // roll-pitch-yaw: gimbal configurations pitch = +-pi/2 +- {0, 1e-9}, every catalogue angle in every slot, random triples
    for (double sg : {1.0, -1.0}) for (double d : {0.0, 1e-9, -1e-9}) {
      rpy(r, mk_ang<S>(r.u(-PI, PI)), mk_ang<S>(sg * (PI / 2 + d)), mk_ang<S>(r.u(-PI, PI)));
      rpy(r, mk_ang<S>(0.0), mk_ang<S>(sg * (PI / 2 + d)), mk_ang<S>(r.u(-PI, PI)));
    }
    for (size_t i = 0; i < as.size(); ++i) {
      const Ang<S> g1 = mk_ang<S>(r.u(-PI, PI)), g2 = mk_ang<S>(r.u(-PI, PI));
      if (i % 3 == 0) rpy(r, as[i], g1, g2); else if (i % 3 == 1) rpy(r, g1, as[i], g2); else rpy(r, g1, g2, as[i]);
    }
    rpy(r, as[1], as[2], as[3]); rpy(r, mk_ang<S>(0.3), mk_ang<S>(0.0), mk_ang<S>(0.0)); rpy(r, mk_ang<S>(0.0), mk_ang<S>(0.3), mk_ang<S>(0.0)); rpy(r, mk_ang<S>(0.0), mk_ang<S>(0.0), mk_ang<S>(0.3));
    for (int i = 0; i < 2 * reps; ++i) rpy(r, mk_ang<S>(r.u(-PI, PI)), mk_ang<S>(r.u(-PI, PI)), mk_ang<S>(r.u(-PI, PI)));
    { L l = lin(r); Setters<GG>::other(r, l, [](const L& a, const V4& b) { return qargs(a, b); }); }
    // threshold: quaternion data scaled to both sides of the acceptance threshold
    for (int k = 0; k < 1 + reps / 8; ++k) { const V4 u = qs[r.i(0, (int)qs.size() - 1)]; for (double s : THR_S) qforms(r, scaled<S>(u, s)); }
  }
};
template <class S> struct Forms<manif::SO3<S>> { static void run(Rng& r, int reps) { QForms<manif::SO3<S>>::run(r, reps); } };
template <class S> struct Forms<manif::SE3<S>> { static void run(Rng& r, int reps) { QForms<manif::SE3<S>>::run(r, reps); } };
template <class S> struct Forms<manif::SE_2_3<S>> { static void run(Rng& r, int reps) { QForms<manif::SE_2_3<S>>::run(r, reps); } };
template <class S> struct Forms<manif::SGal3<S>> { static void run(Rng& r, int reps) { QForms<manif::SGal3<S>>::run(r, reps); } };
template <class S, unsigned int N> struct Forms<manif::Rn<S, N>> { static void run(Rng&, int) {} };   // Rn: the common forms are all it has

int main(int argc, char** argv) {
  if (argc < 4) { std::fprintf(stderr, "usage: %s plan out seed\n", argv[0]); return 2; }
  install_terminate();
  auto plan = read_plan(argv[1]); out().open(argv[2]); uint64_t seed = std::strtoull(argv[3], 0, 10); long ln = 0;
  for (auto& pl : plan) {
    ++ln; if (pl[1] != KEY || pl[0] != "ctor") continue;
    Rng r(seed * 1000003ull + ln * 7919ull + std::hash<std::string>()(KEY));     // same stream in both build modes
    const int reps = std::max(1, std::atoi(pl[10].c_str()));
    Forms<G>::run(r, reps);
    run_common<G>(r, reps);
  }
  out().close(); return 0;
}
