// C17 recorder.  Usage: rec_decast <plan> <out.ndjson> <seed>
// Plan lines:  N d k closed valid
// Each configuration runs in a forked child under alarm(); the parent records crash/timeout events.
// (a) one-hot trajectory in Rn<double,16>: the algorithm is linear there, so every returned point IS its
//     weight vector over the input points; (b) random SE2 / SO3 trajectories (window ends, geodesic law).
#include "rec.h"
#include "rec_bundle.h"
#include <manif/algorithms/decasteljau.h>
#include <sys/wait.h>
#include <signal.h>
using namespace rec;
using R16 = manif::Rn<double, 16>;
using B1 = manif::Bundle<double, manif::SE2, manif::SO3, manif::R3>;   // the algorithm on a product group (vlib.BUNDLE_KEYS B1)

template <class G> static void emit_group(const char* tag, int N, int d, int k, int closed, Rng& r) {
  std::vector<G> traj;
  G X = draw_element<G>("generic", "1", "any", "generic", r);
  traj.push_back(X);
  for (int i = 1; i < N; ++i) { X = X.rplus(draw_tangent<G>("generic", "1", "generic", r) * (typename G::Scalar)0.5); traj.push_back(X); }
  Out& o = out(); o.begin("dcg"); o.raw("g", Info<G>::name()); o.str("sc", "d"); o.num("N", N); o.num("d", d); o.num("k", k); o.num("closed", closed);
  try {
    auto curve = manif::decasteljau(traj, (unsigned)d, (unsigned)k, closed != 0);
    o.str("exc", "none"); o.num("n", (long)curve.size());
    o.key("traj"); std::fputc('[', o.f); for (size_t i = 0; i < traj.size(); ++i) { if (i) std::fputc(',', o.f); std::fputc('[', o.f); for (int j = 0; j < G::RepSize; ++j) { if (j) std::fputc(',', o.f); o.bits(traj[i].coeffs()(j)); } std::fputc(']', o.f); } std::fputc(']', o.f);
    o.key("curve"); std::fputc('[', o.f); for (size_t i = 0; i < curve.size(); ++i) { if (i) std::fputc(',', o.f); std::fputc('[', o.f); for (int j = 0; j < G::RepSize; ++j) { if (j) std::fputc(',', o.f); o.bits(curve[i].coeffs()(j)); } std::fputc(']', o.f); } std::fputc(']', o.f);
    // witnesses of the geodesic law for degree 2: tau_i = P_{i+1} (-) P_i (verified by the spec before use)
    o.key("wit"); std::fputc('[', o.f); for (size_t i = 0; i < traj.size(); ++i) { if (i) std::fputc(',', o.f); auto tau = traj[(i + 1) % traj.size()].rminus(traj[i]); std::fputc('[', o.f); for (int j = 0; j < G::DoF; ++j) { if (j) std::fputc(',', o.f); o.bits(tau.coeffs()(j)); } std::fputc(']', o.f); } std::fputc(']', o.f);
  } catch (const manif::invalid_argument&) { o.str("exc", "invalid_argument"); }
    catch (const manif::runtime_error&) { o.str("exc", "runtime_error"); }
    catch (const std::exception&) { o.str("exc", "other"); }
  o.end();
}

static void emit_onehot(int N, int d, int k, int closed) {
  std::vector<R16> traj;
  for (int i = 0; i < N; ++i) { R16::DataType c = R16::DataType::Zero(); c(i) = 1.0; traj.push_back(R16(c)); }
  Out& o = out(); o.begin("dc"); o.num("N", N); o.num("d", d); o.num("k", k); o.num("closed", closed); o.str("sc", "d");
  try {
    auto curve = manif::decasteljau(traj, (unsigned)d, (unsigned)k, closed != 0);
    o.str("exc", "none"); o.num("n", (long)curve.size());
    o.key("curve"); std::fputc('[', o.f);
    for (size_t i = 0; i < curve.size(); ++i) { if (i) std::fputc(',', o.f); std::fputc('[', o.f); for (int j = 0; j < 16; ++j) { if (j) std::fputc(',', o.f); o.bits(curve[i].coeffs()(j)); } std::fputc(']', o.f); }
    std::fputc(']', o.f);
  } catch (const manif::invalid_argument&) { o.str("exc", "invalid_argument"); }
    catch (const manif::runtime_error&) { o.str("exc", "runtime_error"); }
    catch (const std::exception&) { o.str("exc", "other"); }
  o.end();
}

int main(int argc, char** argv) {
  if (argc < 4) return 2;
  auto plan = read_plan(argv[1]); uint64_t seed = std::strtoull(argv[3], 0, 10);
  FILE* all = std::fopen(argv[2], "w");
  std::string tmp = std::string(argv[2]) + ".child";
  long ln = 0;
  for (auto& pl : plan) {
    ++ln;
    int N = std::atoi(pl[0].c_str()), d = std::atoi(pl[1].c_str()), k = std::atoi(pl[2].c_str()), closed = std::atoi(pl[3].c_str());
    std::string mode = pl[5];   // onehot | SE2 | SO3 | SE3 | B1
    std::fflush(all);
    pid_t pid = fork();
    if (pid == 0) {
      alarm(3);
      out().open(tmp.c_str());
      Rng r(seed * 7919 + ln);
      if (mode == "onehot") emit_onehot(N, d, k, closed);
      else if (mode == "SE2") emit_group<manif::SE2d>("SE2", N, d, k, closed, r);
      else if (mode == "SO3") emit_group<manif::SO3d>("SO3", N, d, k, closed, r);
      else if (mode == "SE3") emit_group<manif::SE3d>("SE3", N, d, k, closed, r);
      else if (mode == "B1") emit_group<B1>("B1", N, d, k, closed, r);
      out().close(); _exit(0);
    }
    int st = 0; waitpid(pid, &st, 0);
    if (WIFEXITED(st) && WEXITSTATUS(st) == 0) {
      std::ifstream in(tmp.c_str()); std::string line; while (std::getline(in, line)) std::fprintf(all, "%s\n", line.c_str());
    } else {
      const char* what = (WIFSIGNALED(st) && WTERMSIG(st) == SIGALRM) ? "timeout" : "crash";
      std::fprintf(all, "{\"e\":\"%s\",\"sc\":\"d\",\"N\":%d,\"d\":%d,\"k\":%d,\"closed\":%d,\"exc\":\"%s\",\"mode\":\"%s\"}\n", mode == "onehot" ? "dc" : "dcg", N, d, k, closed, what, mode.c_str());
    }
    std::remove(tmp.c_str());
  }
  std::fclose(all);
  return 0;
}
