// Replays behaviours of spec/Manif.tla (the abstract register machine) on the real library and logs the
// concrete state after every call: C09 (purity, determinism, mask transparency, aliasing) and C10 (views).
// Build (C++14 for generic lambdas): -DREC_GROUP='manif::SE3<double>' -DREC_KEY='"SE3_d"' [-DREC_UNALIGNED]
// Usage: rec_hist <plan> <out.ndjson> <seed>
// Plan:  "B"                                          start of a behaviour (fresh machine, new random values)
//        "S op dst a b mask res ids post_g post_t"    one call (ids etc. are the abstract state of Manif.tla, echoed)
#include "rec.h"
#include <memory>
using namespace rec;
using G = REC_GROUP;
using S = typename G::Scalar;
using T = typename G::Tangent;
using Jac = typename G::Jacobian;
static const int GZ = 4;                       // guard cells around every slot
static const int REP = G::RepSize, DOF = G::DoF;
#ifdef REC_UNALIGNED
static const int SHIFT = 1;                    // slots start one scalar off the natural alignment
#else
static const int SHIFT = 0;
#endif

static S canary() { uint64_t b = 0x7ff8dead0000beefULL; double d; std::memcpy(&d, &b, 8); return (S)d; }   // a NaN
static bool is_canary(S v) { return v != v; }

struct Machine {
  G g[3];
  T u[2];
  std::vector<S> gbuf, tbuf;
  S* gs(int k) { return gbuf.data() + SHIFT + GZ + k * (REP + GZ); }
  S* ts(int k) { return tbuf.data() + SHIFT + GZ + k * (DOF + GZ); }
  // the views are created ONCE per behaviour and live as long as the machine: a view must keep reflecting its buffer
  // (a "view" that snapshots the coefficients at construction would go unnoticed with short-lived views)
  std::unique_ptr<Eigen::Map<G>> m0, m1; std::unique_ptr<Eigen::Map<const G>> c0, c1;
  std::unique_ptr<Eigen::Map<T>> v0, v1; std::unique_ptr<Eigen::Map<const T>> w0, w1;
  Machine() : gbuf(SHIFT + GZ + 3 * (REP + GZ), canary()), tbuf(SHIFT + GZ + 2 * (DOF + GZ), canary()) {
    m0.reset(new Eigen::Map<G>(gs(0))); m1.reset(new Eigen::Map<G>(gs(1))); c0.reset(new Eigen::Map<const G>(gs(0))); c1.reset(new Eigen::Map<const G>(gs(2)));
    v0.reset(new Eigen::Map<T>(ts(0))); v1.reset(new Eigen::Map<T>(ts(1))); w0.reset(new Eigen::Map<const T>(ts(0))); w1.reset(new Eigen::Map<const T>(ts(1)));
  }
};

// dispatch a register name to the object (owning, mutable view, const view)
template <class F> static void withG(Machine& m, const std::string& r, F&& f) {
  if (r == "g0") f(static_cast<const G&>(m.g[0])); else if (r == "g1") f(static_cast<const G&>(m.g[1])); else if (r == "g2") f(static_cast<const G&>(m.g[2]));
  else if (r == "m0") f(static_cast<const Eigen::Map<G>&>(*m.m0));
  else if (r == "m1") f(static_cast<const Eigen::Map<G>&>(*m.m1));
  else if (r == "c0") f(static_cast<const Eigen::Map<const G>&>(*m.c0));
  else if (r == "c1") f(static_cast<const Eigen::Map<const G>&>(*m.c1));
  else { std::fprintf(stderr, "bad G register %s\n", r.c_str()); std::exit(3); }
}
template <class F> static void withGMut(Machine& m, const std::string& r, F&& f) {
  if (r == "g0") f(m.g[0]); else if (r == "g1") f(m.g[1]); else if (r == "g2") f(m.g[2]);
  else if (r == "m0") f(*m.m0); else if (r == "m1") f(*m.m1);
  else { std::fprintf(stderr, "bad mutable G register %s\n", r.c_str()); std::exit(3); }
}
template <class F> static void withT(Machine& m, const std::string& r, F&& f) {
  if (r == "u0") f(static_cast<const T&>(m.u[0])); else if (r == "u1") f(static_cast<const T&>(m.u[1]));
  else if (r == "v0") f(static_cast<const Eigen::Map<T>&>(*m.v0)); else if (r == "v1") f(static_cast<const Eigen::Map<T>&>(*m.v1));
  else if (r == "w0") f(static_cast<const Eigen::Map<const T>&>(*m.w0)); else if (r == "w1") f(static_cast<const Eigen::Map<const T>&>(*m.w1));
  else { std::fprintf(stderr, "bad T register %s\n", r.c_str()); std::exit(3); }
}
template <class F> static void withTMut(Machine& m, const std::string& r, F&& f) {
  if (r == "u0") f(m.u[0]); else if (r == "u1") f(m.u[1]); else if (r == "v0") f(*m.v0); else if (r == "v1") f(*m.v1);
  else { std::fprintf(stderr, "bad mutable T register %s\n", r.c_str()); std::exit(3); }
}

// normalize() exists only for groups with a rotation part (for Rn the step is the identity map)
template <class X> static void do_normalize(X& x, std::true_type) { x.normalize(); }
template <class X> static void do_normalize(X&, std::false_type) {}
template <class X> static void do_normalize(X& x) { do_normalize(x, std::integral_constant<bool, Info<G>::rot != NONE>()); }

// Jacobian hosts: the requested output is bound to the interior block (2,2) of a NaN-painted larger matrix
static const int BN = (DOF > (int)G::Dim ? DOF : (int)G::Dim);   // largest Jacobian block side (act has Dim x DoF, Dim x Dim)
struct Host {
  Eigen::Matrix<S, BN + 4, BN + 4> h;
  Host() { h.setConstant(canary()); }
  tl::optional<Eigen::Ref<Jac>> ref(bool on) { if (!on) return {}; return tl::optional<Eigen::Ref<Jac>>(h.template block<DOF, DOF>(2, 2)); }
};

// act() has Jacobians of shape Dim x DoF and Dim x Dim: bound to interior blocks of their own NaN-painted hosts and
// then copied (with the paint) into the common (DoF+4)^2 host format so that the trace spec treats them uniformly:
// rows/cols beyond the block stay NaN; the spec's frame check for act uses the logged dimensions.
struct Host2 {
  Eigen::Matrix<S, G::Dim + 4, DOF + 4> ha; Eigen::Matrix<S, G::Dim + 4, G::Dim + 4> hp;
  Host2() { ha.setConstant(canary()); hp.setConstant(canary()); }
  tl::optional<Eigen::Ref<Eigen::Matrix<S, G::Dim, DOF>>> refA(bool on) { if (!on) return {}; return tl::optional<Eigen::Ref<Eigen::Matrix<S, G::Dim, DOF>>>(ha.template block<G::Dim, DOF>(2, 2)); }
  tl::optional<Eigen::Ref<Eigen::Matrix<S, G::Dim, G::Dim>>> refP(bool on) { if (!on) return {}; return tl::optional<Eigen::Ref<Eigen::Matrix<S, G::Dim, G::Dim>>>(hp.template block<G::Dim, G::Dim>(2, 2)); }
  bool frame_ok(bool j1, bool j2) const {
    for (int i = 0; i < ha.rows(); ++i) for (int j = 0; j < ha.cols(); ++j) { bool in = j1 && i >= 2 && i < 2 + G::Dim && j >= 2 && j < 2 + DOF; if (in == is_canary(ha(i, j))) return false; }
    for (int i = 0; i < hp.rows(); ++i) for (int j = 0; j < hp.cols(); ++j) { bool in = j2 && i >= 2 && i < 2 + G::Dim && j >= 2 && j < 2 + G::Dim; if (in == is_canary(hp(i, j))) return false; }
    return true; }
  // copy the true-shaped blocks into the common hosts; a frame violation poisons the block with NaN
  void copy_to(Host* HH, bool j1, bool j2) const {
    bool ok = frame_ok(j1, j2);
    if (j1) { HH[0].h.template block<G::Dim, DOF>(2, 2) = ha.template block<G::Dim, DOF>(2, 2); if (!ok) HH[0].h(2, 2) = canary(); }
    if (j2) { HH[1].h.template block<G::Dim, G::Dim>(2, 2) = hp.template block<G::Dim, G::Dim>(2, 2); if (!ok) HH[1].h(2, 2) = canary(); }
  }
};

static void log_state(Out& o, Machine& m) {
  o.key("gown"); std::fputc('[', o.f); for (int i = 0; i < 3; ++i) { if (i) std::fputc(',', o.f); std::fputc('[', o.f); for (int j = 0; j < REP; ++j) { if (j) std::fputc(',', o.f); o.bits((double)m.g[i].coeffs()(j)); } std::fputc(']', o.f); } std::fputc(']', o.f);
  o.key("town"); std::fputc('[', o.f); for (int i = 0; i < 2; ++i) { if (i) std::fputc(',', o.f); std::fputc('[', o.f); for (int j = 0; j < DOF; ++j) { if (j) std::fputc(',', o.f); o.bits((double)m.u[i].coeffs()(j)); } std::fputc(']', o.f); } std::fputc(']', o.f);
  Eigen::Map<Eigen::Matrix<S, Eigen::Dynamic, 1>> gb(m.gbuf.data(), m.gbuf.size()), tb(m.tbuf.data(), m.tbuf.size());
  o.vec("gbuf", gb); o.vec("tbuf", tb);
}
static void log_hosts(Out& o, Host* H, int nj, int mask) {
  for (int k = 0; k < nj; ++k) if (mask & (1 << k)) o.mat(k == 0 ? "J1" : "J2", H[k].h);
}

static std::vector<long> ints(const std::string& s) { std::vector<long> v; std::stringstream ss(s); std::string t; while (std::getline(ss, t, ',')) if (!t.empty()) v.push_back(std::atol(t.c_str())); return v; }
static void put_ints(Out& o, const char* k, const std::vector<long>& v) { o.key(k); std::fputc('[', o.f); for (size_t i = 0; i < v.size(); ++i) std::fprintf(o.f, "%s%ld", i ? "," : "", v[i]); std::fputc(']', o.f); }

// unrelated library activity between the observed calls (other groups, static helpers)
static void noise(int k) {
  volatile double sink = 0;
  switch (k % 5) {
    case 0: sink += manif::SE2d::Identity().coeffs()(2); sink += manif::SO3Tangentd::Generator(1)(0, 2); break;
    case 1: sink += manif::SE3Tangentd::InnerWeights()(3, 3); sink += manif::SO2Tangentd::Zero().rjac()(0, 0); break;
    case 2: sink += manif::SE3d::Random().inverse().log().coeffs()(0); break;
    case 3: sink += (manif::SGal3d::Random() * manif::SGal3d::Identity()).adj()(0, 0); break;
    default: sink += manif::R3Tangentd::Random().exp().coeffs()(1); break;
  }
}

int main(int argc, char** argv) {
  if (argc < 4) return 2;
  install_terminate();
  auto plan = read_plan(argv[1]); out().open(argv[2]); uint64_t seed = std::strtoull(argv[3], 0, 10);
  Out& o = out();
  std::unique_ptr<Machine> mp; long nb = 0, step = 0;
  for (auto& pl : plan) {
    if (pl[0] == "B") {
      ++nb; step = 0; mp.reset(new Machine()); Machine& m = *mp;
      Rng r(seed * 104729 + nb * 7919 + std::hash<std::string>()(REC_KEY));
      const bool gen = pl[1] == "g";   // single-call behaviours: generic registers
      const char* ths0[] = {"generic", "mid_hi", "near_pi", "small", "generic", "sw_1e2"}; const char* lins0[] = {"1", "1e3", "1e-3", "1", "zero", "1"};
      const char* thsg[] = {"generic", "generic", "generic", "generic", "generic", "generic"}; const char* linsg[] = {"1", "1", "1", "1", "1", "1"};
      const char** ths = gen ? thsg : ths0; const char** lins = gen ? linsg : lins0;
      for (int i = 0; i < 3; ++i) m.g[i] = draw_element<G>(ths[r.i(0, 5)], lins[r.i(0, 5)], "any", "generic", r);
      for (int i = 0; i < 3; ++i) { Eigen::Map<G> v(m.gs(i)); v = draw_element<G>(ths[r.i(0, 5)], lins[r.i(0, 5)], "any", "generic", r); }
      for (int i = 0; i < 2; ++i) m.u[i] = draw_tangent<G>(ths[r.i(0, 5)], lins[r.i(0, 5)], "generic", r);
      for (int i = 0; i < 2; ++i) { Eigen::Map<T> v(m.ts(i)); v = draw_tangent<G>(ths[r.i(0, 5)], lins[r.i(0, 5)], "generic", r); }
      o.begin("init"); o.raw("g", Info<G>::name()); o.str("sc", ScalarName<S>::n()); o.num("rep", REP); o.num("dof", DOF); o.num("gz", GZ); o.num("shift", SHIFT);
      log_state(o, m); o.end();
      continue;
    }
    if (pl[0] != "S" || !mp) continue;
    Machine& m = *mp; ++step;
    const std::string op = pl[1], dst = pl[2], a = pl[3], b = pl[4]; int mask = std::atoi(pl[5].c_str());
    noise((int)(step + nb));
    Host H[2]; int nj = 0; bool isT = false, have_twin = false;
    G res; T tres; G twin; T ttwin;
    std::vector<double> ores, otwin; bool isO = false;
    auto flat = [](std::vector<double>& v, const auto& mtx) { v.clear(); for (int i = 0; i < mtx.rows(); ++i) for (int j = 0; j < mtx.cols(); ++j) v.push_back((double)mtx(i, j)); };
    // one evaluation of the planned call with output mask mk into hosts HH (operands are not yet modified)
    auto evalop = [&](int mk, Host* HH, G& res, T& tres, bool dotwin) {
      bool j1 = mk & 1, j2 = mk & 2;
      if (op == "compose" || op == "between" || op == "timeseq") {
        nj = op == "timeseq" ? 0 : 2; const std::string x = op == "timeseq" ? dst : a, y = op == "timeseq" ? a : b;
        withG(m, x, [&](const auto& X) { withG(m, y, [&](const auto& Y) {
          G Xo = X, Yo = Y;
          if (op == "between") { res = X.between(Y, HH[0].ref(j1), HH[1].ref(j2)); if (dotwin) twin = Xo.between(Yo); }
          else { res = X.compose(Y, HH[0].ref(j1), HH[1].ref(j2)); if (dotwin) twin = Xo.compose(Yo); }
          have_twin = true; }); });
      } else if (op == "inverse" || op == "assign" || op == "moveassign" || op == "log") {
        nj = (op == "assign" || op == "moveassign") ? 0 : 1;
        withG(m, a, [&](const auto& X) { G Xo = X;
          if (op == "inverse") { res = X.inverse(HH[0].ref(j1)); if (dotwin) twin = Xo.inverse(); have_twin = true; }
          else if (op == "log") { tres = X.log(HH[0].ref(j1)); if (dotwin) ttwin = Xo.log(); isT = true; have_twin = true; }
          else res = X; });
      } else if (op == "rplus" || op == "lplus" || op == "pluseq") {
        nj = op == "pluseq" ? 0 : 2; const std::string x = op == "pluseq" ? dst : a, y = op == "pluseq" ? a : b;
        withG(m, x, [&](const auto& X) { withT(m, y, [&](const auto& t) { G Xo = X; T to = t;
          if (op == "lplus") { res = X.lplus(t, HH[0].ref(j1), HH[1].ref(j2)); if (dotwin) twin = Xo.lplus(to); }
          else { res = X.rplus(t, HH[0].ref(j1), HH[1].ref(j2)); if (dotwin) twin = Xo.rplus(to); }
          have_twin = true; }); });
      } else if (op == "exp" || op == "tassign" || op == "tmoveassign" || op == "tneg") {
        nj = op == "exp" ? 1 : 0;
        withT(m, a, [&](const auto& t) { T to = t;
          if (op == "exp") { res = t.exp(HH[0].ref(j1)); if (dotwin) twin = to.exp(); have_twin = true; }
          else if (op == "tneg") { tres = -t; if (dotwin) ttwin = -to; isT = true; have_twin = true; }
          else { tres = t; isT = true; } });
      } else if (op == "rminus" || op == "lminus") {
        nj = 2; isT = true;
        withG(m, a, [&](const auto& X) { withG(m, b, [&](const auto& Y) { G Xo = X, Yo = Y;
          if (op == "rminus") { tres = X.rminus(Y, HH[0].ref(j1), HH[1].ref(j2)); if (dotwin) ttwin = Xo.rminus(Yo); }
          else { tres = X.lminus(Y, HH[0].ref(j1), HH[1].ref(j2)); if (dotwin) ttwin = Xo.lminus(Yo); }
          have_twin = true; }); });
      } else if (op == "act" || op == "adj" || op == "transform") {
        isO = true; nj = op == "act" ? 2 : 0;
        withG(m, a, [&](const auto& X) { G Xo = X;
          typename G::Vector pnt; for (int i = 0; i < G::Dim; ++i) pnt(i) = (S)(0.25 + 0.5 * i);
          if (op == "act") {
            Host2 HA; // act has differently shaped Jacobians: Dim x DoF and Dim x Dim
            auto v = X.act(pnt, HA.refA(j1), HA.refP(j2)); flat(ores, v); if (dotwin) { auto w = Xo.act(pnt); flat(otwin, w); }
            HA.copy_to(HH, j1, j2);
          } else if (op == "adj") { flat(ores, X.adj()); if (dotwin) flat(otwin, Xo.adj()); }
          else { flat(ores, X.transform()); if (dotwin) flat(otwin, Xo.transform()); }
          have_twin = true; });
      } else if (op == "rjac" || op == "ljac" || op == "rjacinv" || op == "smallAdj" || op == "hat" || op == "inner") {
        isO = true; nj = 0;
        withT(m, a, [&](const auto& t) { T to = t;
          if (op == "rjac") { flat(ores, t.rjac()); if (dotwin) flat(otwin, to.rjac()); }
          else if (op == "ljac") { flat(ores, t.ljac()); if (dotwin) flat(otwin, to.ljac()); }
          else if (op == "rjacinv") { flat(ores, t.rjacinv()); if (dotwin) flat(otwin, to.rjacinv()); }
          else if (op == "smallAdj") { flat(ores, t.smallAdj()); if (dotwin) flat(otwin, to.smallAdj()); }
          else if (op == "hat") { flat(ores, t.hat()); if (dotwin) flat(otwin, to.hat()); }
          else { withT(m, b, [&](const auto& s2) { T so = s2; Eigen::Matrix<S, 1, 1> v; v(0, 0) = t.inner(s2); flat(ores, v); if (dotwin) { Eigen::Matrix<S, 1, 1> w; w(0, 0) = to.inner(so); flat(otwin, w); } }); }
          have_twin = true; });
      } else if (op == "normalize") { withG(m, dst, [&](const auto& X) { res = X; }); do_normalize(res); }
      else if (op == "setIdentity") { res.setIdentity(); }
      else if (op == "setRandom") { res.setRandom(); }
      else if (op == "setcoeff" || op == "renormalize") { }
      else if (op == "tsetZero") { tres.setZero(); isT = true; }
      else if (op == "tsetRandom") { tres.setRandom(); isT = true; }
      else { std::fprintf(stderr, "unknown op %s\n", op.c_str()); std::exit(3); }
    };
    evalop(mask, H, res, tres, true);
    // the same call under every other subset of the optional outputs (C09: the value and each Jacobian must not depend
    // on which outputs are requested); logged as "alts" = [[mask, value, J1 block or [], J2 block or []], ...]
    std::string alts = "[";
    if (nj > 0) {
      int nm = nj == 2 ? 4 : 2; bool firstalt = true;
      for (int mk = 0; mk < nm; ++mk) {
        if (mk == mask) continue;
        Host HA[2]; G r2; T t2; std::vector<double> keep = ores; evalop(mk, HA, r2, t2, false); std::vector<double> alt = ores; ores.swap(keep); keep.swap(alt);
        std::ostringstream ss; ss << (firstalt ? "" : ",") << "[" << mk << ",[";
        auto bits = [&](double d) { uint64_t bb; std::memcpy(&bb, &d, 8); ss << "[" << (int32_t)(bb >> 32) << "," << (int32_t)(bb & 0xffffffffu) << "]"; };
        if (isO) for (size_t i = 0; i < keep.size(); ++i) { if (i) ss << ","; bits(keep[i]); }
        else if (isT) for (int i = 0; i < DOF; ++i) { if (i) ss << ","; bits((double)t2.coeffs()(i)); } else for (int i = 0; i < REP; ++i) { if (i) ss << ","; bits((double)r2.coeffs()(i)); }
        ss << "]";
        for (int k = 0; k < 2; ++k) { ss << ",["; int jr = op == "act" ? (int)G::Dim : DOF, jc = (op == "act" && k == 1) ? (int)G::Dim : DOF;
          if (k < nj && (mk & (1 << k))) for (int i = 0; i < jr; ++i) { if (i) ss << ","; ss << "["; for (int j = 0; j < jc; ++j) { if (j) ss << ","; bits((double)HA[k].h(i + 2, j + 2)); } ss << "]"; } ss << "]"; }
        ss << "]"; alts += ss.str(); firstalt = false;
      }
    }
    alts += "]";

    // write the destination through its own storage kind, using the API's own mutating form where one exists
    if (isO) { /* observers write no location */ }
    else if (!isT) {
      withGMut(m, dst, [&](auto& D) {
        // in-place forms: the owning computation done above becomes the twin, the logged result is what D holds now
        if (op == "pluseq") { withT(m, a, [&](const auto& t) { D += t; }); res = D; }
        else if (op == "timeseq") { withG(m, a, [&](const auto& Y) { D *= Y; }); res = D; }
        else if (op == "normalize") { twin = res; have_twin = true; do_normalize(D); res = D; }
        else if (op == "setIdentity") { twin = res; have_twin = true; D.setIdentity(); res = D; }
        else if (op == "setRandom") { D.setRandom(); res = D; }
        else if (op == "setcoeff") {
          // a write through the coefficient accessor of the destination's own storage kind: one linear coefficient gets a
          // new value; groups that consist of rotation coefficients only get all of them negated (same rotation, still valid)
          int lin = -1; for (int i = 0; i < REP; ++i) { bool rot = (Info<G>::rot == COMPLEX && i >= Info<G>::coff && i < Info<G>::coff + 2) || (Info<G>::rot == QUAT && i >= Info<G>::coff && i < Info<G>::coff + 4); if (!rot) { lin = i; break; } }
          if (lin >= 0 && Info<G>::rot != NONE) D.coeffs()(lin) = (S)(0.125 * (double)(step % 17) - 1.0);
          else if (Info<G>::rot == NONE) D.coeffs()(0) = (S)(0.125 * (double)(step % 17) - 1.0);
          else D.coeffs() = -D.coeffs();
          res = D;
        }
        else if (op == "renormalize") {
          // the rotation coefficients are scaled far below unit norm through the coefficient accessor (1e-9 or 1e-12: the
          // direction survives in both precisions), then normalize() has to bring them back: inside the destination only
          const int nrot = Info<G>::rot == COMPLEX ? 2 : Info<G>::rot == QUAT ? 4 : 0;
          const S k = (S)(step % 2 ? 1e-9 : 1e-12);
          for (int i = 0; i < nrot; ++i) D.coeffs()(Info<G>::coff + i) *= k;
          do_normalize(D); res = D;
        }
        else if (op == "moveassign") {
          // D = std::move(source), the source being an object of its own storage kind (a fresh view over the same slot
          // for views, a copy for owning / const registers): exercises the move-assignment operators of every kind pair
          if (a == "m0" || a == "m1") { Eigen::Map<G> src(m.gs(a == "m0" ? 0 : 1)); D = std::move(src); }
          else { G src = res; D = std::move(src); }
        }
        // plain assignment is done directly between the two registers, so that every (destination kind, source kind) pair of
        // assignment operators is exercised (own/view <- own/view/const view), not only "<- owning temporary"
        else if (op == "assign") { withG(m, a, [&](const auto& X) { D = X; }); }
        else D = res; });
    } else {
      withTMut(m, dst, [&](auto& D) {
        if (op == "tsetZero") { ttwin = tres; have_twin = true; D.setZero(); tres = D; } else if (op == "tsetRandom") { D.setRandom(); tres = D; }
        else if (op == "tmoveassign") { if (a == "v0" || a == "v1") { Eigen::Map<T> src(m.ts(a == "v0" ? 0 : 1)); D = std::move(src); } else { T src = tres; D = std::move(src); } }
        else if (op == "tassign") { withT(m, a, [&](const auto& t) { D = t; }); }
        else D = tres; });
    }
    o.begin("step"); o.raw("g", Info<G>::name()); o.str("sc", ScalarName<S>::n()); o.num("i", step); o.str("op", op); o.str("dst", dst); o.str("a", a); o.str("b", b); o.num("mask", mask);
    o.num("rid", std::atol(pl[6].c_str())); put_ints(o, "ids", ints(pl[7])); put_ints(o, "pg", ints(pl[8])); put_ints(o, "pt", ints(pl[9]));
    o.num("isT", isO ? 2 : isT ? 1 : 0);
    auto putv = [&](const char* k, const std::vector<double>& v) { o.key(k); std::fputc('[', o.f); for (size_t i = 0; i < v.size(); ++i) { if (i) std::fputc(',', o.f); o.bits(v[i]); } std::fputc(']', o.f); };
    if (isO) putv("res", ores); else if (isT) o.vec("res", tres.coeffs()); else o.vec("res", res.coeffs());
    if (have_twin) { if (isO) putv("twin", otwin); else if (isT) o.vec("twin", ttwin.coeffs()); else o.vec("twin", twin.coeffs()); }
    log_hosts(o, H, nj, mask); o.raw("alts", alts);
    o.num("jr", op == "act" ? (long)G::Dim : (long)DOF); o.num("jc1", (long)DOF); o.num("jc2", op == "act" ? (long)G::Dim : (long)DOF);
    log_state(o, m); o.end();
  }
  out().close();
  return 0;
}
