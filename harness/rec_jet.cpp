// Recorder for C12 (generic in the scalar): every planned operation is run over double (with all
// analytic Jacobians), over ceres::Jet<double,N> on X (+) d with d = 0 carrying unit dual parts, and
// over float.  No tolerance or expected value lives here.
//
// Build: one binary per group:  -DREC_GROUP='manif::SE3<double>' -DREC_KEY='"SE3_d"' -I harness/ceres_stub
// Usage: rec_jet <plan> <out.ndjson> <seed>
// Plan line (as rec_core):  op  key  prop  thc  linc  hemi  dir  thc2  linc2  jac  reps
//
// Events per planned operation f in {compose inverse between rplus lplus rminus lminus log exp act}:
//   <f>       rec_core's format, "via":"jet": value fields = PRIMAL parts of f(X (+) d) over Jet,
//             Ja/Jb/Jt/Jp = dual parts of f(X (+) d) (-) f(X)  (AD-derived right Jacobians)
//   jetcmp    the same call over double: prim/dbl result coefficients, ad/an Jacobians
//   fltcmp    the operation over float on float inputs of the same cell, next to the double result on
//             the same (float-representable, re-normalised in double) inputs
//   functor   ManifoldPlus / LocalParamPlus (on rplus cells), ManifoldMinus / Objective / Constraint
//             (on rminus cells): manif's ceres functors driven through raw pointers into guarded
//             buffers, with T = double ("sc":"d") and T = Jet ("sc":"j"), next to the reference
//             obtained from member functions over double
#include "rec.h"
#include <manif/ceres/ceres.h>                    // constants.h, is_ad<Jet>, constraint.h, manifold.h, objective.h
#include <manif/ceres/local_parametrization.h>    // not pulled by ceres.h for ceres >= 2.2
#include <algorithm>
using namespace rec;
using G = REC_GROUP;
using S = typename G::Scalar;
using T = typename G::Tangent;
using Jac = typename G::Jacobian;
using Vec = typename G::Vector;
static const char* KEY = REC_KEY;
enum { DoF = G::DoF, Dim = G::Dim, Rep = G::RepSize };
using Gf = typename G::template LieGroupTemplate<float>;
using Tf = typename Gf::Tangent;
using Vf = typename Gf::Vector;
using MatXd = Eigen::MatrixXd;
using VecXd = Eigen::VectorXd;

template <int N> struct JT {
  using Sc = ceres::Jet<double, N>;
  using Gj = typename G::template LieGroupTemplate<Sc>;
  using Tj = typename T::template TangentTemplate<Sc>;
  using Vj = Eigen::Matrix<Sc, Dim, 1>;
};

struct Ctx { const PlanLine& pl; Rng& r; std::string prop, thc, linc, hemi, dir, thc2, linc2; bool flt; };

// ---------------------------------------------------------------------------------------------
// lifting double data into Jets (coefficient-wise, bit preserving -- NOT through cast<>(), which
// re-normalises / goes through the angle) and reading Jets back
template <int N> typename JT<N>::Gj liftG(const G& X) {
  Eigen::Matrix<ceres::Jet<double, N>, Rep, 1> c;
  for (int i = 0; i < Rep; ++i) c(i) = ceres::Jet<double, N>(X.coeffs()(i));
  return typename JT<N>::Gj(c);
}
// tangent with primal t and unit dual parts at off .. off+DoF-1 (off < 0: constant)
template <int N> typename JT<N>::Tj liftT(const T& t, int off) {
  typename JT<N>::Tj r;
  for (int i = 0; i < DoF; ++i) r.coeffs()(i) = off < 0 ? ceres::Jet<double, N>(t.coeffs()(i)) : ceres::Jet<double, N>(t.coeffs()(i), off + i);
  return r;
}
template <int N> typename JT<N>::Tj seed0(int off) { T z; z.setZero(); return liftT<N>(z, off); }
template <int N> typename JT<N>::Vj liftV(const Vec& p, int off) {
  typename JT<N>::Vj r;
  for (int i = 0; i < Dim; ++i) r(i) = off < 0 ? ceres::Jet<double, N>(p(i)) : ceres::Jet<double, N>(p(i), off + i);
  return r;
}
// X (+) d, d = 0 with unit dual parts
template <int N> typename JT<N>::Gj perturbed(const G& X, int off) { return liftG<N>(X).plus(seed0<N>(off)); }

template <class V> VecXd primal(const V& v) { VecXd r(v.size()); for (int i = 0; i < v.size(); ++i) r(i) = v(i).a; return r; }
template <class V> MatXd dual(const V& e, int off, int n) {
  MatXd m(e.size(), n);
  for (int i = 0; i < e.size(); ++i) for (int j = 0; j < n; ++j) m(i, j) = e(i).v[off + j];
  return m;
}
template <class V> VecXd widen(const V& v) { VecXd r(v.size()); for (int i = 0; i < v.size(); ++i) r(i) = (double)v(i); return r; }

// ---------------------------------------------------------------------------------------------
// output helpers
struct NamedMat { const char* k; MatXd m; };
static void put_obj(Out& o, const char* key, const std::vector<NamedMat>& ms) {
  o.key(key); std::fputc('{', o.f);
  for (size_t q = 0; q < ms.size(); ++q) {
    std::fprintf(o.f, "%s\"%s\":[", q ? "," : "", ms[q].k);
    const MatXd& m = ms[q].m;
    for (int i = 0; i < m.rows(); ++i) { std::fputs(i ? ",[" : "[", o.f); for (int j = 0; j < m.cols(); ++j) { if (j) std::fputc(',', o.f); o.bits(m(i, j)); } std::fputc(']', o.f); }
    std::fputc(']', o.f);
  }
  std::fputc('}', o.f);
}
struct NamedVec { const char* k; VecXd v; };
static std::string stratum(const PlanLine& pl) { std::string st; for (size_t i = 2; i < pl.tok.size(); ++i) { if (i > 2) st += ","; st += pl.tok[i]; } return st; }

// the pair of events (standard event via jet, jetcmp) of one call
static void emit_pair(Ctx& c, const char* op, const std::vector<NamedVec>& inputs, const char* resKey,
                      const VecXd& prim, const VecXd& dbl, const std::vector<NamedMat>& ad, const std::vector<NamedMat>& an) {
  Out& o = out();
  head<G>(op, c.pl, "C12"); o.str("via", "jet");
  for (auto& in : inputs) o.vec(in.k, in.v);
  o.vec(resKey, prim);
  for (auto& m : ad) o.mat(m.k, m.m);
  o.end();
  head<G>("jetcmp", c.pl, "C12"); o.str("op", op); o.str("res", resKey);
  for (auto& in : inputs) o.vec(in.k, in.v);
  if (std::string(resKey) == "rt") o.vec("rt", dbl);      // classification tangent (theta / gap class) from the double run
  o.vec("prim", prim); o.vec("dbl", dbl);
  put_obj(o, "ad", ad); put_obj(o, "an", an);
  o.end();
}
static void emit_flt(Ctx& c, const char* op, const std::vector<NamedVec>& inputs, const VecXd& flt, const VecXd& dbl, bool tangentResult = false) {
  Out& o = out();
  o.begin("fltcmp"); o.str("p", "C12"); o.raw("g", Info<G>::name()); o.str("sc", "f"); o.str("st", stratum(c.pl)); o.str("op", op);
  for (auto& in : inputs) o.vec(in.k, in.v);
  if (tangentResult) o.vec("rt", dbl);                      // classification tangent (theta / pi - theta class) from the double run
  o.vec("flt", flt); o.vec("dbl", dbl); o.end();
}

// ---------------------------------------------------------------------------------------------
// drawing (same conventions as rec_core)
static G elemA(Ctx& c) { return draw_element<G>(c.thc, c.linc, c.hemi, c.dir, c.r); }
static G elemD(Ctx& c) { return draw_element<G>(c.thc2, c.linc2, "any", c.dir, c.r); }
static T tanA(Ctx& c) { return draw_tangent<G>(c.thc, c.linc, c.dir, c.r); }
static T tanB(Ctx& c) { return draw_tangent<G>(c.thc2, c.linc2, "generic", c.r); }
static Gf elemAf(Ctx& c) { return draw_element<Gf>(c.thc, c.linc, c.hemi, c.dir, c.r); }
static Gf elemDf(Ctx& c) { return draw_element<Gf>(c.thc2, c.linc2, "any", c.dir, c.r); }
static Tf tanAf(Ctx& c) { return draw_tangent<Gf>(c.thc, c.linc, c.dir, c.r); }
static Tf tanBf(Ctx& c) { return draw_tangent<Gf>(c.thc2, c.linc2, "generic", c.r); }
// the double element with the (float-representable) coefficients of a float element; the rotation
// coefficients are re-normalised in double (manif asserts |norm - 1| < eps of the scalar type)
static G widenG(const Gf& X) {
  Eigen::Matrix<double, Rep, 1> c; for (int i = 0; i < Rep; ++i) c(i) = (double)X.coeffs()(i);
  const int co = Info<G>::coff;
  if (Info<G>::rot == COMPLEX) { double n = std::sqrt(c(co) * c(co) + c(co + 1) * c(co + 1)); c(co) /= n; c(co + 1) /= n; }
  if (Info<G>::rot == QUAT) { double n = 0; for (int k = 0; k < 4; ++k) n += c(co + k) * c(co + k); n = std::sqrt(n); for (int k = 0; k < 4; ++k) c(co + k) /= n; }
  return G(c);
}
static T widenT(const Tf& t) { T r; for (int i = 0; i < DoF; ++i) r.coeffs()(i) = (double)t.coeffs()(i); return r; }

// ---------------------------------------------------------------------------------------------
// operations
static void op_compose(Ctx& c, bool between) {
  const char* op = between ? "between" : "compose";
  G X = elemA(c), Y = between ? X.compose(elemD(c)) : elemD(c);
  Jac Ja, Jb; G R = between ? X.between(Y, Ja, Jb) : X.compose(Y, Ja, Jb);
  enum { N = 2 * DoF };
  auto Xj = perturbed<N>(X, 0); auto Yj = perturbed<N>(Y, DoF);
  auto Rj = between ? Xj.between(Yj) : Xj.compose(Yj);
  auto R0 = between ? liftG<N>(X).between(liftG<N>(Y)) : liftG<N>(X).compose(liftG<N>(Y));
  auto e = Rj.minus(R0);
  emit_pair(c, op, {{"a", X.coeffs()}, {"b", Y.coeffs()}}, "r", primal(Rj.coeffs()), R.coeffs(),
            {{"Ja", dual(e.coeffs(), 0, DoF)}, {"Jb", dual(e.coeffs(), DoF, DoF)}}, {{"Ja", Ja}, {"Jb", Jb}});
  if (!c.flt) return;
  Gf Xf = elemAf(c), Yf = between ? Xf.compose(elemDf(c)) : elemDf(c);
  Gf Rf = between ? Xf.between(Yf) : Xf.compose(Yf);
  G Xd = widenG(Xf), Yd = widenG(Yf); G Rd = between ? Xd.between(Yd) : Xd.compose(Yd);
  emit_flt(c, op, {{"a", Xd.coeffs()}, {"b", Yd.coeffs()}}, widen(Rf.coeffs()), Rd.coeffs());
}
static void op_inverse(Ctx& c) {
  G X = elemA(c); Jac Ja; G R = X.inverse(Ja);
  enum { N = DoF };
  auto Rj = perturbed<N>(X, 0).inverse(); auto R0 = liftG<N>(X).inverse(); auto e = Rj.minus(R0);
  emit_pair(c, "inverse", {{"a", X.coeffs()}}, "r", primal(Rj.coeffs()), R.coeffs(), {{"Ja", dual(e.coeffs(), 0, DoF)}}, {{"Ja", Ja}});
  if (!c.flt) return;
  Gf Xf = elemAf(c); G Xd = widenG(Xf);
  emit_flt(c, "inverse", {{"a", Xd.coeffs()}}, widen(Xf.inverse().coeffs()), Xd.inverse().coeffs());
}
static void op_log(Ctx& c) {
  G X = elemA(c); Jac Ja; T t = X.log(Ja);
  enum { N = DoF };
  auto tj = perturbed<N>(X, 0).log();
  emit_pair(c, "log", {{"a", X.coeffs()}}, "rt", primal(tj.coeffs()), t.coeffs(), {{"Ja", dual(tj.coeffs(), 0, DoF)}}, {{"Ja", Ja}});
  if (!c.flt) return;
  Gf Xf = elemAf(c); G Xd = widenG(Xf);
  emit_flt(c, "log", {{"a", Xd.coeffs()}}, widen(Xf.log().coeffs()), Xd.log().coeffs(), true);
}
static void op_exp(Ctx& c) {
  T t = tanA(c); Jac Jt; G R = t.exp(Jt);
  enum { N = DoF };
  T z; z.setZero();
  auto tp = liftT<N>(t, -1) + liftT<N>(z, 0);            // t + d
  auto Rj = tp.exp(); auto R0 = liftT<N>(t, -1).exp(); auto e = Rj.minus(R0);
  emit_pair(c, "exp", {{"t", t.coeffs()}}, "r", primal(Rj.coeffs()), R.coeffs(), {{"Jt", dual(e.coeffs(), 0, DoF)}}, {{"Jt", Jt}});
  if (!c.flt) return;
  Tf tf = tanAf(c); T td = widenT(tf);
  emit_flt(c, "exp", {{"t", td.coeffs()}}, widen(tf.exp().coeffs()), td.exp().coeffs());
}
static void op_plus(Ctx& c, bool left);
static void op_minus(Ctx& c, bool left);
static void op_act(Ctx& c) {
  G X = elemA(c); Vec p = draw_point<Vec>(c.linc2, c.r);
  Eigen::Matrix<S, Dim, DoF> Ja; Eigen::Matrix<S, Dim, Dim> Jp; Vec v = X.act(p, Ja, Jp);
  enum { N = DoF + Dim };
  typename JT<N>::Vj pj = liftV<N>(p, DoF);
  typename JT<N>::Vj vj = perturbed<N>(X, 0).act(pj);
  emit_pair(c, "act", {{"a", X.coeffs()}, {"pt", p}}, "rv", primal(vj), v, {{"Ja", dual(vj, 0, DoF)}, {"Jp", dual(vj, DoF, Dim)}}, {{"Ja", Ja}, {"Jp", Jp}});
  if (!c.flt) return;
  Gf Xf = elemAf(c); Vf pf = draw_point<Vf>(c.linc2, c.r); G Xd = widenG(Xf); Vec pd = pf.template cast<double>();
  Vf vf = Xf.act(pf); Vec vd = Xd.act(pd);
  emit_flt(c, "act", {{"a", Xd.coeffs()}, {"pt", pd}}, widen(vf), vd);
}

// ---------------------------------------------------------------------------------------------
// functors through raw pointers with guard cells
enum { GUARD = 3 };
template <class ST> struct Sentinel;
template <> struct Sentinel<double> { static double make(int k) { return 1.0e9 + k + 0.5; } static void flat(const double& x, std::vector<double>& o) { o.push_back(x); } };
template <int N> struct Sentinel<ceres::Jet<double, N>> {
  static ceres::Jet<double, N> make(int k) { ceres::Jet<double, N> j(1.0e9 + k + 0.5); for (int i = 0; i < N; ++i) j.v[i] = -3.0e6 - i - 100 * k; return j; }
  static void flat(const ceres::Jet<double, N>& x, std::vector<double>& o) { o.push_back(x.a); for (int i = 0; i < N; ++i) o.push_back(x.v[i]); }
};
// a buffer of n cells surrounded by GUARD sentinel cells on each side
template <class ST> struct Buf {
  std::vector<ST> m; int n;
  explicit Buf(int n_) : m(n_ + 2 * GUARD), n(n_) { for (int i = 0; i < GUARD; ++i) { m[i] = Sentinel<ST>::make(i); m[GUARD + n + i] = Sentinel<ST>::make(GUARD + i); } for (int i = 0; i < n; ++i) m[GUARD + i] = Sentinel<ST>::make(50 + i); }
  ST* p() { return m.data() + GUARD; }
  template <class V> void set(const V& v) { for (int i = 0; i < n; ++i) p()[i] = v(i); }
  void guards(std::vector<double>& o) const { for (int i = 0; i < GUARD; ++i) Sentinel<ST>::flat(m[i], o); for (int i = 0; i < GUARD; ++i) Sentinel<ST>::flat(m[GUARD + n + i], o); }
  void cells(std::vector<double>& o) const { for (int i = 0; i < n; ++i) Sentinel<ST>::flat(m[GUARD + i], o); }
  Eigen::Map<const Eigen::Matrix<ST, Eigen::Dynamic, 1>> vec() const { return Eigen::Map<const Eigen::Matrix<ST, Eigen::Dynamic, 1>>(m.data() + GUARD, n); }
};
static void put_flat(Out& o, const char* k, const std::vector<double>& v) { o.key(k); std::fputc('[', o.f); for (size_t i = 0; i < v.size(); ++i) { if (i) std::fputc(',', o.f); o.bits(v[i]); } std::fputc(']', o.f); }
static void fhead(Ctx& c, const char* name, const char* sc) {
  Out& o = out(); o.begin("functor"); o.str("p", "C12"); o.raw("g", Info<G>::name()); o.str("sc", sc); o.str("st", stratum(c.pl)); o.str("name", name);
}
struct Snap { std::vector<double> g, in; };
template <class B1, class B2, class B3> static Snap snap(const B1& a, const B2& b, const B3& c) { Snap s; a.guards(s.g); b.guards(s.g); c.guards(s.g); a.cells(s.in); b.cells(s.in); return s; }
template <class B1, class B3> static Snap snap2(const B1& a, const B3& c) { Snap s; a.guards(s.g); c.guards(s.g); a.cells(s.in); return s; }
static void put_snaps(Out& o, const Snap& before, const Snap& after) { put_flat(o, "gb", before.g); put_flat(o, "ga", after.g); put_flat(o, "inb", before.in); put_flat(o, "ina", after.in); }

// exposes the protected square-root information matrix of the constraint functor
struct ConstraintProbe : manif::CeresConstraintFunctor<G> {
  using Base = manif::CeresConstraintFunctor<G>;
  ConstraintProbe(const T& m, const typename Base::Covariance& cov) : Base(m, cov) {}
  const typename Base::InformationMatrix& U() const { return this->measurement_sqrt_info_upper_; }
};

// Plus functors on (X, t): T = double, then T = Jet<DoF> with the delta carrying unit dual parts;
// the Jet output feeds ManifoldFunctor::Minus(X (+) d, X) whose dual part is d(Y (-) X)/dd
static void functors_plus(Ctx& c, const G& X, const T& t) {
  Out& o = out();
  Jac J_Y_t; G Y = X.plus(t, {}, J_Y_t);                       // reference: member functions over double
  manif::CeresManifoldFunctor<G> mf; manif::CeresLocalParameterizationFunctor<G> lf;
  for (int which = 0; which < 2; ++which) {
    Buf<double> bx(Rep), bd(DoF), bo(Rep); bx.set(X.coeffs()); bd.set(t.coeffs());
    Snap s0 = snap(bx, bd, bo);
    bool ok = which == 0 ? mf.Plus(bx.p(), bd.p(), bo.p()) : lf(bx.p(), bd.p(), bo.p());
    Snap s1 = snap(bx, bd, bo);
    fhead(c, which == 0 ? "ManifoldPlus" : "LocalParamPlus", "d"); o.num("ok", ok ? 1 : 0);
    o.vec("a", X.coeffs()); o.vec("t", t.coeffs()); o.vec("out", bo.vec()); o.vec("ref", Y.coeffs()); put_snaps(o, s0, s1); o.end();
  }
  enum { N = DoF };
  using SJ = ceres::Jet<double, N>;
  Buf<SJ> jy(Rep);
  for (int which = 0; which < 2; ++which) {
    Buf<SJ> bx(Rep), bd(DoF), bo(Rep); bx.set(liftG<N>(X).coeffs()); bd.set(liftT<N>(t, 0).coeffs());
    Snap s0 = snap(bx, bd, bo);
    bool ok = which == 0 ? mf.Plus(bx.p(), bd.p(), bo.p()) : lf(bx.p(), bd.p(), bo.p());
    Snap s1 = snap(bx, bd, bo);
    fhead(c, which == 0 ? "ManifoldPlus" : "LocalParamPlus", "j"); o.num("ok", ok ? 1 : 0);
    o.vec("a", X.coeffs()); o.vec("t", t.coeffs()); o.vec("out", primal(bo.vec())); o.vec("ref", Y.coeffs());
    o.mat("out_dual", dual(bo.vec(), 0, DoF)); put_snaps(o, s0, s1); o.end();
    if (which == 0) jy.set(bo.vec());
  }
  {  // Minus(X (+) t, X) over Jets: value t' = Y (-) X, derivative wrt t through the dual parts
    Jac J_e_Y; T e = Y.minus(X, J_e_Y, {});
    Buf<SJ> bx(Rep), bo(DoF); bx.set(liftG<N>(X).coeffs());
    Snap s0 = snap(jy, bx, bo);
    bool ok = mf.Minus(jy.p(), bx.p(), bo.p());
    Snap s1 = snap(jy, bx, bo);
    fhead(c, "ManifoldMinus", "j"); o.num("ok", ok ? 1 : 0); o.str("of", "plus");
    o.vec("a", X.coeffs()); o.vec("t", t.coeffs()); o.vec("b", Y.coeffs()); o.vec("out", primal(bo.vec())); o.vec("ref", e.coeffs());
    o.mat("dual", dual(bo.vec(), 0, DoF)); o.mat("dual_ref", (J_e_Y * J_Y_t).eval()); put_snaps(o, s0, s1); o.end();
  }
}

// Minus / Objective / Constraint functors on (X, Y):  tau = X (-) Y
static void functors_minus(Ctx& c, const G& X, const G& Y) {
  Out& o = out();
  Jac J_X, J_Y; T tau = X.minus(Y, J_X, J_Y);                   // reference: member functions over double
  manif::CeresManifoldFunctor<G> mf;
  {
    Buf<double> by(Rep), bx(Rep), bo(DoF); by.set(X.coeffs()); bx.set(Y.coeffs());
    Snap s0 = snap(by, bx, bo); bool ok = mf.Minus(by.p(), bx.p(), bo.p()); Snap s1 = snap(by, bx, bo);
    fhead(c, "ManifoldMinus", "d"); o.num("ok", ok ? 1 : 0); o.str("of", "pair");
    o.vec("a", X.coeffs()); o.vec("b", Y.coeffs()); o.vec("out", bo.vec()); o.vec("ref", tau.coeffs()); o.vec("rt", tau.coeffs()); put_snaps(o, s0, s1); o.end();
  }
  enum { N = 2 * DoF };
  using SJ = ceres::Jet<double, N>;
  auto Xj = perturbed<N>(X, 0); auto Yj = perturbed<N>(Y, DoF);
  MatXd dref(DoF, N); dref << J_X, J_Y;
  {
    Buf<SJ> by(Rep), bx(Rep), bo(DoF); by.set(Xj.coeffs()); bx.set(Yj.coeffs());
    Snap s0 = snap(by, bx, bo); bool ok = mf.Minus(by.p(), bx.p(), bo.p()); Snap s1 = snap(by, bx, bo);
    fhead(c, "ManifoldMinus", "j"); o.num("ok", ok ? 1 : 0); o.str("of", "pair");
    o.vec("a", X.coeffs()); o.vec("b", Y.coeffs()); o.vec("out", primal(bo.vec())); o.vec("ref", tau.coeffs()); o.vec("rt", tau.coeffs());
    o.mat("dual", dual(bo.vec(), 0, N)); o.mat("dual_ref", dref); put_snaps(o, s0, s1); o.end();
  }
  // Objective: residual = || target (-) state || * weight     (objective.h), target := X, state := Y
  const double w = c.r.u(0.5, 4.0);
  manif::CeresObjectiveFunctor<G> of(X, w);
  const double nrm = tau.coeffs().norm();
  {
    Buf<double> bs(Rep), bo(1); bs.set(Y.coeffs());
    Snap s0 = snap2(bs, bo); bool ok = of(bs.p(), bo.p()); Snap s1 = snap2(bs, bo);
    VecXd ref(1); ref(0) = nrm * w; VecXd wv(1); wv(0) = w;
    fhead(c, "Objective", "d"); o.num("ok", ok ? 1 : 0);
    o.vec("a", X.coeffs()); o.vec("b", Y.coeffs()); o.vec("w", wv); o.vec("rt", tau.coeffs()); o.vec("out", bo.vec()); o.vec("ref", ref); put_snaps(o, s0, s1); o.end();
  }
  {
    enum { M = DoF };
    using SM = ceres::Jet<double, M>;
    auto Ym = perturbed<M>(Y, 0);
    Buf<SM> bs(Rep), bo(1); bs.set(Ym.coeffs());
    Snap s0 = snap2(bs, bo); bool ok = of(bs.p(), bo.p()); Snap s1 = snap2(bs, bo);
    VecXd ref(1); ref(0) = nrm * w; VecXd wv(1); wv(0) = w;
    fhead(c, "Objective", "j"); o.num("ok", ok ? 1 : 0);
    o.vec("a", X.coeffs()); o.vec("b", Y.coeffs()); o.vec("w", wv); o.vec("rt", tau.coeffs()); o.vec("out", primal(bo.vec())); o.vec("ref", ref);
    // d(w |tau|)/dd = w tau^T J_Y / |tau|   (not differentiable at tau = 0: logged only when |tau| > 0)
    MatXd dj = dual(bo.vec(), 0, M);
    bool fin = true; for (int j = 0; j < M; ++j) fin = fin && std::isfinite(dj(0, j));
    o.num("dual_finite", fin ? 1 : 0);
    if (nrm > 0 && fin) { o.mat("dual", dj); o.mat("dual_ref", (w / nrm * (tau.coeffs().transpose() * J_Y)).eval()); }
    put_snaps(o, s0, s1); o.end();
  }
  // Constraint: residual = U (m - (future (-) past)),  U^T U = cov^-1     (constraint.h), past := Y, future := X
  T m = draw_tangent<G>("generic", "1", "generic", c.r);
  Eigen::Matrix<double, DoF, DoF> A, cov;
  for (int i = 0; i < DoF; ++i) for (int j = 0; j < DoF; ++j) A(i, j) = c.r.u(-0.3, 0.3);
  cov = A * A.transpose() + Eigen::Matrix<double, DoF, DoF>::Identity();
  cov = ((cov + cov.transpose()) * 0.5).eval();
  ConstraintProbe cf(m, cov);
  const Eigen::Matrix<double, DoF, DoF> U = cf.U();
  VecXd cref = U * (m - tau).coeffs();
  {
    Buf<double> bp(Rep), bf(Rep), bo(DoF); bp.set(Y.coeffs()); bf.set(X.coeffs());
    Snap s0 = snap(bp, bf, bo); bool ok = cf(bp.p(), bf.p(), bo.p()); Snap s1 = snap(bp, bf, bo);
    fhead(c, "Constraint", "d"); o.num("ok", ok ? 1 : 0);
    o.vec("a", X.coeffs()); o.vec("b", Y.coeffs()); o.vec("m", m.coeffs()); o.mat("cov", cov); o.mat("U", U); o.vec("rt", tau.coeffs());
    o.vec("out", bo.vec()); o.vec("ref", cref); put_snaps(o, s0, s1); o.end();
  }
  {
    Buf<SJ> bp(Rep), bf(Rep), bo(DoF); bp.set(Yj.coeffs()); bf.set(Xj.coeffs());
    Snap s0 = snap(bp, bf, bo); bool ok = cf(bp.p(), bf.p(), bo.p()); Snap s1 = snap(bp, bf, bo);
    fhead(c, "Constraint", "j"); o.num("ok", ok ? 1 : 0);
    o.vec("a", X.coeffs()); o.vec("b", Y.coeffs()); o.vec("m", m.coeffs()); o.mat("cov", cov); o.mat("U", U); o.vec("rt", tau.coeffs());
    o.vec("out", primal(bo.vec())); o.vec("ref", cref);
    o.mat("dual", dual(bo.vec(), 0, N)); o.mat("dual_ref", (-(U * dref)).eval()); put_snaps(o, s0, s1); o.end();
  }
}

static void op_plus(Ctx& c, bool left) {
  const char* op = left ? "lplus" : "rplus";
  G X = elemA(c); T t = tanB(c); Jac Ja, Jt; G R = left ? X.lplus(t, Ja, Jt) : X.rplus(t, Ja, Jt);
  enum { N = 2 * DoF };
  T z; z.setZero();
  auto Xj = perturbed<N>(X, 0); auto tj = liftT<N>(t, -1) + liftT<N>(z, DoF);
  auto Rj = left ? Xj.lplus(tj) : Xj.rplus(tj);
  auto R0 = left ? liftG<N>(X).lplus(liftT<N>(t, -1)) : liftG<N>(X).rplus(liftT<N>(t, -1));
  auto e = Rj.minus(R0);
  emit_pair(c, op, {{"a", X.coeffs()}, {"t", t.coeffs()}}, "r", primal(Rj.coeffs()), R.coeffs(),
            {{"Ja", dual(e.coeffs(), 0, DoF)}, {"Jt", dual(e.coeffs(), DoF, DoF)}}, {{"Ja", Ja}, {"Jt", Jt}});
  if (!left) functors_plus(c, X, t);
  if (!c.flt) return;
  Gf Xf = elemAf(c); Tf tf = tanBf(c); G Xd = widenG(Xf); T td = widenT(tf);
  Gf Rf = left ? Xf.lplus(tf) : Xf.rplus(tf); G Rd = left ? Xd.lplus(td) : Xd.rplus(td);
  emit_flt(c, op, {{"a", Xd.coeffs()}, {"t", td.coeffs()}}, widen(Rf.coeffs()), Rd.coeffs());
}
static void op_minus(Ctx& c, bool left) {
  const char* op = left ? "lminus" : "rminus";
  G Y = elemA(c); G X = left ? elemD(c).compose(Y) : Y.compose(elemD(c));
  Jac Ja, Jb; T t = left ? X.lminus(Y, Ja, Jb) : X.rminus(Y, Ja, Jb);
  enum { N = 2 * DoF };
  auto Xj = perturbed<N>(X, 0); auto Yj = perturbed<N>(Y, DoF);
  auto tj = left ? Xj.lminus(Yj) : Xj.rminus(Yj);
  emit_pair(c, op, {{"a", X.coeffs()}, {"b", Y.coeffs()}}, "rt", primal(tj.coeffs()), t.coeffs(),
            {{"Ja", dual(tj.coeffs(), 0, DoF)}, {"Jb", dual(tj.coeffs(), DoF, DoF)}}, {{"Ja", Ja}, {"Jb", Jb}});
  if (!left) functors_minus(c, X, Y);
  if (!c.flt) return;
  Gf Yf = elemAf(c); Gf Xf = left ? elemDf(c).compose(Yf) : Yf.compose(elemDf(c));
  G Xd = widenG(Xf), Yd = widenG(Yf);
  Tf tf = left ? Xf.lminus(Yf) : Xf.rminus(Yf); T td = left ? Xd.lminus(Yd) : Xd.rminus(Yd);
  emit_flt(c, op, {{"a", Xd.coeffs()}, {"b", Yd.coeffs()}}, widen(tf.coeffs()), td.coeffs(), true);
}

int main(int argc, char** argv) {
  if (argc < 4) { std::fprintf(stderr, "usage: %s plan out seed\n", argv[0]); return 2; }
  install_terminate();
  auto plan = read_plan(argv[1]); out().open(argv[2]); uint64_t seed = std::strtoull(argv[3], 0, 10);
  long ln = 0;
  for (auto& pl : plan) {
    ++ln;
    if (pl[1] != KEY) continue;
    Rng r(seed * 1000003ull + ln * 7919ull + std::hash<std::string>()(KEY));
    // single precision is exercised on the same cells except the 1e6 linear magnitude (as in Strata.tla FloatOK)
    Ctx c{pl, r, pl[2], pl[3], pl[4], pl[5], pl[6], pl[7], pl[8], pl[4] != "1e6" && pl[8] != "1e6"};
    int reps = std::max(1, std::atoi(pl[10].c_str()));
    const std::string& op = pl[0];
    for (int k = 0; k < reps; ++k) {
      if (op == "compose") op_compose(c, false); else if (op == "between") op_compose(c, true);
      else if (op == "inverse") op_inverse(c); else if (op == "act") op_act(c);
      else if (op == "exp") op_exp(c); else if (op == "log") op_log(c);
      else if (op == "rplus") op_plus(c, false); else if (op == "lplus") op_plus(c, true);
      else if (op == "rminus") op_minus(c, false); else if (op == "lminus") op_minus(c, true);
      else { std::fprintf(stderr, "unsupported op %s\n", op.c_str()); return 3; }
    }
  }
  out().close();
  return 0;
}
