// C01 exact-lattice recorder.  Usage: rec_lattice <plan> <out> ; plan lines (integers):
//   X  qa qb qc qd  t1 t2 t3  v1 v2 v3  s     G  (same 11 numbers)    P n  p11 p12 p13 ... (n probe points)
// quaternion coefficients are DOUBLED (Hurwitz); for SE2 the rotation is (re im 0 0) un-doubled.
#include "rec.h"
using namespace rec;
using G = REC_GROUP; using S = typename G::Scalar;
struct E { long q[4], t[3], v[3], s; };
static G make(const E& e) {
  Eigen::Matrix<S, G::RepSize, 1> c; const std::string k = REC_KIND;
  if (k == "SE2") { c << (S)e.t[0], (S)e.t[1], (S)e.q[0], (S)e.q[1]; }
  else { int o = 0;
    if (k != "SO3") { for (int i = 0; i < 3; ++i) c(o++) = (S)e.t[i]; }
    for (int i = 0; i < 4; ++i) c(o++) = (S)e.q[i] / (S)2;
    if (k == "SE_2_3" || k == "SGal3") for (int i = 0; i < 3; ++i) c(o++) = (S)e.v[i];
    if (k == "SGal3") c(o++) = (S)e.s; }
  return G(c);
}
static void put_e(Out& o, const char* key, const E& e, int n) {
  std::string s = "{\"q\":["; const std::string k = REC_KIND; int nq = k == "SE2" ? 2 : 4;
  for (int i = 0; i < nq; ++i) s += (i ? "," : "") + std::to_string(e.q[i]); s += "],\"t\":[";
  for (int i = 0; i < n; ++i) s += (i ? "," : "") + std::to_string(e.t[i]); s += "],\"v\":[";
  for (int i = 0; i < n; ++i) s += (i ? "," : "") + std::to_string(e.v[i]); s += "],\"s\":" + std::to_string(e.s) + "}";
  o.raw(key, s);
}
int main(int argc, char** argv) {
  if (argc < 3) return 2; install_terminate(); auto plan = read_plan(argv[1]); out().open(argv[2]); Out& o = out();
  const std::string k = REC_KIND; const int n = k == "SE2" ? 2 : 3;
  for (auto& pl : plan) {
    E x, g; size_t p = 1; auto rd = [&](E& e) { for (int i = 0; i < 4; ++i) e.q[i] = std::atol(pl[p++].c_str()); for (int i = 0; i < 3; ++i) e.t[i] = std::atol(pl[p++].c_str()); for (int i = 0; i < 3; ++i) e.v[i] = std::atol(pl[p++].c_str()); e.s = std::atol(pl[p++].c_str()); };
    rd(x); ++p; rd(g); ++p; int np = std::atoi(pl[p++].c_str());
    std::vector<typename G::Vector> pts; std::string pj = "[";
    for (int i = 0; i < np; ++i) { typename G::Vector v; pj += (i ? ",[" : "["); for (int j = 0; j < n; ++j) { long c = std::atol(pl[p++].c_str()); v(j) = (S)c; pj += (j ? "," : "") + std::to_string(c); } pj += "]"; pts.push_back(v); }
    pj += "]";
    G X = make(x), Gg = make(g);
    o.begin("lat"); o.raw("g", Info<G>::name()); o.str("sc", ScalarName<S>::n()); put_e(o, "X", x, n); put_e(o, "G", g, n); o.raw("pts", pj);
    o.vec("xg", X.compose(Gg).coeffs()); o.vec("gx", Gg.compose(X).coeffs()); o.vec("inv", X.inverse().coeffs());
    o.mat("T", X.transform()); o.mat("adj", X.adj());
    o.key("act"); std::fputc('[', o.f); for (size_t i = 0; i < pts.size(); ++i) { if (i) std::fputc(',', o.f); auto r = X.act(pts[i]); std::fputc('[', o.f); for (int j = 0; j < n; ++j) { if (j) std::fputc(',', o.f); o.bits((double)r(j)); } std::fputc(']', o.f); } std::fputc(']', o.f);
    o.end();
  }
  out().close(); return 0;
}
