// Many groups in ONE process, in a seeded order: static helpers (generators, inner weights, Identity, Zero) and the
// Lie-algebra operations of each group must not depend on which other groups were used before (C07 for every group incl.
// bundles with permuted element orders; C09 independence of earlier calls).  Emits the same "algebra" / "generator"
// events as rec_core.  Usage: rec_mixed <out> <seed>
#include "rec_bundle.h"
#include <algorithm>
#include <functional>
using namespace rec;
template <class G> struct Alg {
  using S = typename G::Scalar; using T = typename G::Tangent;
  static void hd(const char* e) { Out& o = out(); o.begin(e); o.str("p", "C07"); o.raw("g", Info<G>::name()); o.str("sc", ScalarName<S>::n()); o.str("st", "C07,mixed"); }
  static void generator() {
    for (int i = -1; i <= (int)T::DoF; ++i) {
      hd("generator"); Out& o = out(); o.num("i", i);
      try { typename T::LieAlg A = T::Generator(i); o.mat("rm", A); o.str("exc", "none"); }
      catch (const manif::invalid_argument&) { o.str("exc", "invalid_argument"); }
      catch (const std::exception&) { o.str("exc", "other"); }
      o.end();
    }
  }
  static void algebra(Rng&) {
    // inputs depend on the GROUP only (not on the order of the jobs), so that the same call can be compared across
    // processes that ran the jobs in different orders (C09: results do not depend on earlier calls)
    Rng r(std::hash<std::string>()(Info<G>::name() + ScalarName<S>::n()));
    T a, b; for (int i = 0; i < T::DoF; ++i) { a.coeffs()(i) = (S)r.i(-2, 2); b.coeffs()(i) = (S)r.i(-2, 2); }
    typename T::LieAlg A = a.hat(); T v = T::Vee(A); T br = T::Bracket(a, b);
    hd("algebra"); Out& o = out(); o.vec("t", a.coeffs()); o.vec("s", b.coeffs()); o.mat("hat", A); o.vec("vee", v.coeffs()); o.vec("br", br.coeffs());
    o.sc("inner", a.inner(b)); o.sc("wn", a.weightedNorm()); o.sc("swn", a.squaredWeightedNorm()); o.mat("W", T::InnerWeights()); o.num("exact", 1); o.end();
  }
  static void identity() {
    G I = G::Identity(); G X; X.setIdentity();
    hd("identity"); Out& o = out(); o.vec("r", I.coeffs()); o.vec("r2", X.coeffs()); o.mat("rm", I.transform()); o.end();
  }
};
int main(int argc, char** argv) {
  if (argc < 3) return 2; install_terminate(); out().open(argv[1]); uint64_t seed = std::strtoull(argv[2], 0, 10); Rng r(seed);
  using namespace manif;
  std::vector<std::function<void()>> jobs;
#define ADD(TYPE) jobs.push_back([&] { Alg<TYPE>::algebra(r); }); jobs.push_back([&] { Alg<TYPE>::generator(); }); jobs.push_back([&] { Alg<TYPE>::identity(); });
  ADD(SO2d) ADD(R1d) ADD(R2d) ADD(R3d) ADD(SE2d) ADD(SO3d) ADD(SE3d) ADD(SE_2_3d) ADD(SGal3d) ADD(SO2f) ADD(R1f) ADD(SO3f) ADD(R3f)
  using B1 = Bundle<double, R3, SO3>; using B2 = Bundle<double, SO3, R3>; using B3 = Bundle<double, R1, SO2>; using B4 = Bundle<double, SO2, R1>;
  using B5 = Bundle<double, SO2, SO2>; using B6 = Bundle<double, SE2>; using B7 = Bundle<double, R1, R1>; using B8 = Bundle<double, R2, SO2, R1>;
  ADD(B1) ADD(B2) ADD(B3) ADD(B4) ADD(B5) ADD(B6) ADD(B7) ADD(B8)
  std::shuffle(jobs.begin(), jobs.end(), r.g);
  for (auto& j : jobs) j();
  std::shuffle(jobs.begin(), jobs.end(), r.g);     // and once more in another order (re-use after first use)
  for (auto& j : jobs) j();
  out().close(); return 0;
}
