// C14 recorder: one process = one schedule.  The plan says which thread performs which operations of
// the catalogue (first uses of manif's lazily initialised statics and const operations on SHARED
// const objects).  The shared objects are built from the seed before any thread exists (without
// touching any of the statics); all threads are released together from a spin barrier; every thread
// writes the bit patterns of its results into its own buffer; after join the main thread repeats every
// operation ("post") and writes one event per (thread, operation).  Nothing is compared here.
//
//   rec_threads mt|seq <plan> <out.ndjson> <seed> <plan-id>
//   <plan> = thread/thread/...   thread = op,op,...   op = <Group>.<name>[.<index>]
//   seq: no threads, the main thread performs everything in order (reference process).
#include "rec.h"
#include <atomic>
#include <thread>
#include <chrono>

namespace {

enum OpCode { IDENTITY, SETIDENTITY, ZERO, GENERATOR, INNERWEIGHTS, ADJ, RJAC, LJAC, SMALLADJ, INVERSE, LOG, COMPOSE, EXP, ACT, NOPS };
const char* const OP_NAMES[NOPS] = {"Identity", "SetIdentity", "Zero", "Generator", "InnerWeights", "adj", "rjac", "ljac",
                                    "smallAdj", "inverse", "log", "compose", "exp", "act"};
enum GroupCode { G_SO2, G_SE2, G_SO3, G_SE3, G_SE_2_3, G_SGAL3, G_R3, NGROUPS };
const char* const GROUP_NAMES[NGROUPS] = {"SO2", "SE2", "SO3", "SE3", "SE_2_3", "SGal3", "R3"};

struct Op { int g, code, idx; std::string text; };
typedef std::vector<double> Buf;

template <class M> void put_mat(Buf& b, const M& m) { for (int i = 0; i < m.rows(); ++i) for (int j = 0; j < m.cols(); ++j) b.push_back((double)m(i, j)); }
template <class V> void put_vec(Buf& b, const V& v) { for (int i = 0; i < v.size(); ++i) b.push_back((double)v(i)); }

// shared const operands of one group
template <class G> struct Shared {
  typedef typename G::Tangent Tangent; typedef typename G::Vector Vector;
  const G X, Y; const Tangent t; const Vector p;
  explicit Shared(rec::Rng& r)
    : X(rec::draw_element<G>("generic", "1", "any", "generic", r)), Y(rec::draw_element<G>("generic", "1", "any", "generic", r)),
      t(rec::draw_tangent<G>("generic", "1", "generic", r)), p(rec::draw_point<Vector>("1", r)) {}
};

template <class G> void perform(const Shared<G>& s, const Op& op, Buf& b) {
  typedef typename G::Tangent Tangent;
  switch (op.code) {
    case IDENTITY:     put_vec(b, G::Identity().coeffs()); break;
    case SETIDENTITY:  { G tmp; tmp.setIdentity(); put_vec(b, tmp.coeffs()); break; }   // thread-local object, shared static
    case ZERO:         put_vec(b, Tangent::Zero().coeffs()); break;
    case GENERATOR:    put_mat(b, Tangent::Generator(op.idx)); break;
    case INNERWEIGHTS: put_mat(b, Tangent::InnerWeights()); break;
    case ADJ:          put_mat(b, s.X.adj()); break;
    case RJAC:         put_mat(b, s.t.rjac()); break;
    case LJAC:         put_mat(b, s.t.ljac()); break;
    case SMALLADJ:     put_mat(b, s.t.smallAdj()); break;
    case INVERSE:      put_vec(b, s.X.inverse().coeffs()); break;
    case LOG:          put_vec(b, s.X.log().coeffs()); break;
    case COMPOSE:      put_vec(b, s.X.compose(s.Y).coeffs()); break;
    case EXP:          put_vec(b, s.t.exp().coeffs()); break;
    case ACT:          put_vec(b, s.X.act(s.p)); break;
    default: break;
  }
}

struct World {
  Shared<manif::SO2d> so2; Shared<manif::SE2d> se2; Shared<manif::SO3d> so3; Shared<manif::SE3d> se3;
  Shared<manif::SE_2_3d> se23; Shared<manif::SGal3d> sgal3; Shared<manif::R3d> r3;
  explicit World(rec::Rng& r) : so2(r), se2(r), so3(r), se3(r), se23(r), sgal3(r), r3(r) {}
};

// returns the exception class ("none" when the call returned)
const char* perform(const World& w, const Op& op, Buf& b) {
  try {
    switch (op.g) {
      case G_SO2: perform(w.so2, op, b); break;       case G_SE2: perform(w.se2, op, b); break;
      case G_SO3: perform(w.so3, op, b); break;       case G_SE3: perform(w.se3, op, b); break;
      case G_SE_2_3: perform(w.se23, op, b); break;   case G_SGAL3: perform(w.sgal3, op, b); break;
      case G_R3: perform(w.r3, op, b); break;
    }
  } catch (const std::exception&) { return "exception"; } catch (...) { return "unknown"; }
  return "none";
}

std::vector<std::string> split(const std::string& s, char c) {
  std::vector<std::string> v; std::string cur;
  for (size_t i = 0; i <= s.size(); ++i) { if (i == s.size() || s[i] == c) { v.push_back(cur); cur.clear(); } else cur += s[i]; }
  return v;
}

bool parse_op(const std::string& text, Op& op) {
  std::vector<std::string> f = split(text, '.');
  if (f.size() < 2 || f.size() > 3) return false;
  op.text = text; op.g = -1; op.code = -1; op.idx = 0;
  for (int i = 0; i < NGROUPS; ++i) if (f[0] == GROUP_NAMES[i]) op.g = i;
  for (int i = 0; i < NOPS; ++i) if (f[1] == OP_NAMES[i]) op.code = i;
  if (f.size() == 3) op.idx = std::atoi(f[2].c_str());
  return op.g >= 0 && op.code >= 0 && ((op.code == GENERATOR) == (f.size() == 3));
}

struct Slot { Buf out; const char* exc; long t0, t1; };   // t0/t1: ns since the barrier opened (evidence of overlap only)
struct ThreadPlan { std::vector<Op> ops; std::vector<Slot> slots; };

std::atomic<int> arrived(0);
std::atomic<bool> go(false);
std::chrono::steady_clock::time_point released;
inline long since_release() { return (long)std::chrono::duration_cast<std::chrono::nanoseconds>(std::chrono::steady_clock::now() - released).count(); }

void worker(const World* w, ThreadPlan* tp) {
  arrived.fetch_add(1, std::memory_order_acq_rel);
  long spins = 0;
  while (!go.load(std::memory_order_acquire)) { if (++spins > 20000) std::this_thread::yield(); }
  for (size_t i = 0; i < tp->ops.size(); ++i) {
    Slot& s = tp->slots[i];
    s.t0 = since_release(); s.exc = perform(*w, tp->ops[i], s.out); s.t1 = since_release();
  }
}

void put_bits(rec::Out& o, const char* k, const Buf& b) {
  o.key(k); std::fputc('[', o.f);
  for (size_t i = 0; i < b.size(); ++i) { if (i) std::fputc(',', o.f); o.bits(b[i]); }
  std::fputc(']', o.f);
}

}  // namespace

int main(int argc, char** argv) {
  if (argc < 6) { std::fprintf(stderr, "usage: rec_threads mt|seq <plan> <out.ndjson> <seed> <plan-id>\n"); return 2; }
  const std::string mode = argv[1];
  const unsigned long seed = std::strtoul(argv[4], nullptr, 10);
  const long plan_id = std::atol(argv[5]);
  std::vector<ThreadPlan> plan;
  {
    std::vector<std::string> ths = split(argv[2], '/');
    for (size_t k = 0; k < ths.size(); ++k) {
      ThreadPlan tp; std::vector<std::string> os = split(ths[k], ',');
      for (size_t i = 0; i < os.size(); ++i) { Op op; if (!parse_op(os[i], op)) { std::fprintf(stderr, "bad operation '%s'\n", os[i].c_str()); return 2; } tp.ops.push_back(op); }
      tp.slots.resize(tp.ops.size());
      for (size_t i = 0; i < tp.slots.size(); ++i) { tp.slots[i].out.reserve(128); tp.slots[i].exc = "not_run"; tp.slots[i].t0 = tp.slots[i].t1 = 0; }
      plan.push_back(tp);
    }
  }
  rec::Rng rng(seed * 2654435761ul + 17);
  const World world(rng);                 // shared const operands; no manif static has been used yet

  if (mode == "mt") {
    std::vector<std::thread> th;
    for (size_t k = 0; k < plan.size(); ++k) th.emplace_back(worker, &world, &plan[k]);
    while (arrived.load(std::memory_order_acquire) < (int)plan.size()) std::this_thread::yield();
    released = std::chrono::steady_clock::now();
    go.store(true, std::memory_order_release);
    for (size_t k = 0; k < th.size(); ++k) th[k].join();
  } else {
    for (size_t k = 0; k < plan.size(); ++k)
      for (size_t i = 0; i < plan[k].ops.size(); ++i) plan[k].slots[i].exc = perform(world, plan[k].ops[i], plan[k].slots[i].out);
  }

  rec::Out& o = rec::out(); o.open(argv[3]);
  for (size_t k = 0; k < plan.size(); ++k)
    for (size_t i = 0; i < plan[k].ops.size(); ++i) {
      const Op& op = plan[k].ops[i];
      Buf post; const char* pexc = perform(world, op, post);      // single-threaded repetition after join
      o.begin("op"); o.str("p", "C14"); o.raw("g", std::string("{\"k\":\"") + GROUP_NAMES[op.g] + "\"}"); o.str("sc", "d");
      o.str("mode", mode); o.num("plan", plan_id); o.num("seed", (long)seed); o.num("th", (long)k + 1); o.num("i", (long)i + 1);
      o.str("op", op.text); o.str("exc", plan[k].slots[i].exc); o.str("pexc", pexc);
      o.num("t0", plan[k].slots[i].t0); o.num("t1", plan[k].slots[i].t1);
      put_bits(o, "out", plan[k].slots[i].out); put_bits(o, "post", post);
      o.end();
    }
  o.close();
  return 0;
}
