// C08 recorder: long operation histories; logs the rotation coefficients after each step (first FULL steps
// completely, afterwards per-1000-step summaries plus every step whose deviation exceeds half the band).
// Build per group: -DREC_GROUP=... -DREC_KEY=...  with or without -DNDEBUG (assertion-enabled / release).
// Usage: rec_walk <plan> <out> <seed>      plan lines: program key steps full
#include "rec.h"
#include <manif/algorithms/interpolation.h>
#include <manif/algorithms/average.h>
using namespace rec;
using G = REC_GROUP; using S = typename G::Scalar; using T = typename G::Tangent;
static const double UNIT = sizeof(S) == 8 ? 2.220446049250313e-16 : 1.1920928955078125e-07;
template <class X> static long double dev(const X& x) {   // (|rot|^2 - 1) in units of the scalar's epsilon
  long double s = 0; int n = Info<G>::rot == COMPLEX ? 2 : Info<G>::rot == QUAT ? 4 : 0;
  if (!n) return 0; for (int i = 0; i < n; ++i) { long double c = x.coeffs()(Info<G>::coff + i); s += c * c; } return (s - 1.0L) / UNIT;
}
template <class X> static void log_rot(Out& o, const X& x) {
  int n = Info<G>::rot == COMPLEX ? 2 : Info<G>::rot == QUAT ? 4 : 0; o.key("rot"); std::fputc('[', o.f);
  for (int i = 0; i < n; ++i) { if (i) std::fputc(',', o.f); o.bits((double)x.coeffs()(Info<G>::coff + i)); } std::fputc(']', o.f);
  bool fin = true; for (int i = 0; i < G::RepSize; ++i) fin = fin && std::isfinite((double)x.coeffs()(i)); o.num("allfinite", fin ? 1 : 0);
}
// one program over registers of storage kind GX (owning G or Eigen::Map<G> over user buffers)
template <class GX> static void run_prog(const std::string& prog, const std::string& progname, long steps, long full, Rng& r, GX& X, GX& Y, const char* mode) {
  Out& o = out(); G Z = G::Identity();
    long double dmin = 0, dmax = 0; long from = 1; int nonfinite = 0;
    o.begin("wstart"); o.raw("g", Info<G>::name()); o.str("sc", ScalarName<S>::n()); o.str("prog", progname); o.str("mode", mode); o.num("steps", steps); o.end();
    for (long k = 1; k <= steps; ++k) {
      std::string op; long double d1 = dev(X), d2 = 0; int composed = 0;
      try {
        int c = prog == "walk" ? r.i(0, 13) : -1;
        if (prog == "square") { d2 = d1; X = X * X; op = "x=x*x"; composed = 1; }
        else if (prog == "chain") { if (k % 2) { d2 = dev(Y); X = X * Y; op = "x=x*y"; composed = 1; } else { d1 = dev(Y); d2 = dev(X); Y = Y * X; X.coeffs().swap(Y.coeffs()); op = "y=y*x;swap"; composed = 1; } }
        else if (prog == "pluseq_small") { T t = draw_tangent<G>(k % 3 ? "below_sw" : "small", "zero", "generic", r); d2 = dev(t.exp()); X += t; op = "x+=t_small"; composed = 1; }
        else if (prog == "between") { d2 = dev(Y); X = X.between(Y); op = "x=between(x,y)"; composed = 1; if (k % 7 == 0) Y = Y * Y; }
        else if (c == 0) { d2 = dev(Y); X = X * Y; op = "x=x*y"; composed = 1; }
        else if (c == 1) { X = X.inverse(); op = "x=inv(x)"; }
        else if (c == 2) { d2 = dev(Y); X = X.between(Y); op = "x=between(x,y)"; composed = 1; }
        else if (c == 3) { T t = draw_tangent<G>("generic", "1", "generic", r); d2 = dev(t.exp()); X += t; op = "x+=t"; composed = 1; }
        else if (c == 4) { T t = draw_tangent<G>("below_sw", "1", "generic", r); d2 = dev(t.exp()); X += t; op = "x+=t_small"; composed = 1; }
        else if (c == 5) { d2 = dev(Y); X *= Y; op = "x*=y"; composed = 1; }
        else if (c == 6) { Y = draw_tangent<G>("near_pi", "1", "generic", r).exp(); op = "y=exp(t)"; }
        else if (c == 7) { X = manif::interpolate(X, Y, (S)r.u(0, 1), manif::INTERP_METHOD::SLERP); op = "x=interpolate"; }
        else if (c == 8) { std::vector<G> v; v.push_back(G(X)); v.push_back(X + draw_tangent<G>("mid_hi", "1e-3", "generic", r)); v.push_back(X + draw_tangent<G>("mid_hi", "1e-3", "generic", r)); X = manif::average_biinvariant(v); op = "x=average"; }
        else if (c == 9) { X = X.template cast<float>().template cast<S>(); op = "x=cast"; }
        else if (c == 10) { Y = G::Random(); op = "y=random"; }
        else if (c == 11) { d2 = d1; X = X * X; op = "x=x*x"; composed = 1; }
        else if (c == 12) { d1 = dev(Y); d2 = dev(X); Y = Y * X; op = "y=y*x"; composed = 2; }
        else { Z = X; X = Y; Y = Z.inverse(); op = "rotate"; }
      } catch (const std::exception& e) { o.begin("wexc"); o.raw("g", Info<G>::name()); o.str("sc", ScalarName<S>::n()); o.str("mode", mode); o.num("k", k); o.str("op", op); o.end(); break; }
      // keep the linear coordinates of the random walk in a realistic range
      if (prog == "walk" && (X.coeffs().cwiseAbs().maxCoeff() > (S)1e6 || Y.coeffs().cwiseAbs().maxCoeff() > (S)1e6)) {
        X = draw_element<G>("generic", "1", "any", "generic", r); Y = draw_element<G>("near_pi", "1", "any", "generic", r); op += ";reset"; composed = 0; }
      const GX& Rr = composed == 2 ? Y : X;
      long double d = dev(Rr); bool fin = true; for (int i = 0; i < G::RepSize; ++i) fin = fin && std::isfinite((double)X.coeffs()(i)) && std::isfinite((double)Y.coeffs()(i));
      if (!fin) nonfinite++;
      dmin = std::min(dmin, d); dmax = std::max(dmax, d);
      if (k <= full || std::fabs((double)d) > 60 || !fin) {
        o.begin("w"); o.raw("g", Info<G>::name()); o.str("sc", ScalarName<S>::n()); o.str("mode", mode); o.num("k", k); o.str("op", op); log_rot(o, Rr);
        o.sc("dself", (double)d); o.num("composed", composed ? 1 : 0); o.sc("d1", (double)d1); o.sc("d2", (double)d2); o.end();
      }
      if (k % 1000 == 0 || k == steps) { o.begin("wsum"); o.raw("g", Info<G>::name()); o.str("sc", ScalarName<S>::n()); o.str("mode", mode); o.num("from", from); o.num("to", k); o.sc("dmin", (double)dmin); o.sc("dmax", (double)dmax); o.num("nonfinite", nonfinite); o.end(); from = k + 1; dmin = dmax = 0; nonfinite = 0; }
    }
}

int main(int argc, char** argv) {
  if (argc < 4) return 2; install_terminate();
  auto plan = read_plan(argv[1]); out().open(argv[2]); uint64_t seed = std::strtoull(argv[3], 0, 10); Out& o = out(); long ln = 0;
#ifdef NDEBUG
  const char* mode = "ndebug";
#else
  const char* mode = "assert";
#endif
  for (auto& pl : plan) {
    ++ln; if (pl[1] != REC_KEY) continue;
    const bool view = pl[0].size() > 5 && pl[0].compare(pl[0].size() - 5, 5, "_view") == 0;
    const std::string progname = pl[0]; const std::string prog = view ? progname.substr(0, progname.size() - 5) : progname;
    long steps = std::atol(pl[2].c_str()), full = std::atol(pl[3].c_str());
    Rng r(seed * 999983 + ln * 7919 + std::hash<std::string>()(REC_KEY));
    // adversarial single-operation programs run on pure rotations (zero linear parts stay zero; otherwise repeated
    // squaring doubles the translation until it overflows, which is arithmetic, not a defect)
    const char* lin0 = prog == "walk" ? "1" : "zero";
    const G X0 = draw_element<G>("generic", lin0, "any", "generic", r), Y0 = draw_element<G>("near_pi", lin0, "any", "generic", r);
    if (!view) { G X = X0, Y = Y0; run_prog(prog, progname, steps, full, r, X, Y, mode); }
    else {
      // the same programs with the registers living in user buffers behind mutable views
      S bx[G::RepSize], by[G::RepSize]; Eigen::Map<G> X(bx), Y(by); X = X0; Y = Y0;
      run_prog(prog, progname, steps, full, r, X, Y, mode);
    }
  }
  out().close(); return 0;
}
