package verifov;
// Accelerators for spec/Fix.tla: every method computes exactly the function the pure TLA+
// definition of the same name defines (checked by spec/FixSelfTest.tla), using BigInteger.
import java.math.BigInteger;
import java.util.ArrayList;
import tlc2.overrides.TLAPlusOperator;
import tlc2.value.impl.*;
public class FixOv {
  static final int B = 15, F = 195;
  static final BigInteger MASK = BigInteger.valueOf((1 << B) - 1);
  static final BigInteger ONE = BigInteger.ONE.shiftLeft(F);
  static int iv(Value v) { return ((IntValue) v).val; }
  static Value[] elems(Value v) { return ((TupleValue) v.toTuple()).elems; }
  static BigInteger toBig(Value v) {
    Value[] e = elems(v);
    int sign = iv(e[0]); BigInteger r = BigInteger.ZERO;
    for (int i = e.length - 1; i >= 1; i--) r = r.shiftLeft(B).or(BigInteger.valueOf(iv(e[i])));
    return sign < 0 ? r.negate() : r;
  }
  static Value fromBig(BigInteger b) {
    int sign = b.signum(); BigInteger a = b.abs(); ArrayList<Value> l = new ArrayList<>();
    l.add(IntValue.gen(sign));
    while (a.signum() != 0) { l.add(IntValue.gen(a.and(MASK).intValue())); a = a.shiftRight(B); }
    return new TupleValue(l.toArray(new Value[0]));
  }
  static BigInteger[] toVec(Value v) { Value[] e = elems(v); BigInteger[] r = new BigInteger[e.length]; for (int i = 0; i < r.length; i++) r[i] = toBig(e[i]); return r; }
  static Value fromVec(BigInteger[] v) { Value[] r = new Value[v.length]; for (int i = 0; i < r.length; i++) r[i] = fromBig(v[i]); return new TupleValue(r); }
  static BigInteger[][] toMat(Value v) { Value[] rows = elems(v); BigInteger[][] m = new BigInteger[rows.length][]; for (int i = 0; i < m.length; i++) m[i] = toVec(rows[i]); return m; }
  static Value fromMat(BigInteger[][] m) { Value[] rows = new Value[m.length]; for (int i = 0; i < m.length; i++) rows[i] = fromVec(m[i]); return new TupleValue(rows); }
  // truncation toward zero
  static BigInteger shr(BigInteger x, int k) { return x.signum() >= 0 ? x.shiftRight(k) : x.negate().shiftRight(k).negate(); }
  static BigInteger mul(BigInteger a, BigInteger b) { return shr(a.multiply(b), F); }
  static BigInteger div(BigInteger a, BigInteger b) { return a.shiftLeft(F).divide(b); }
  static Value bool(boolean b) { return b ? BoolValue.ValTrue : BoolValue.ValFalse; }

  @TLAPlusOperator(identifier = "FInt", module = "Fix", warn = false) public static Value fint(Value a) { return fromBig(BigInteger.valueOf(iv(a)).shiftLeft(F)); }
  @TLAPlusOperator(identifier = "FNeg", module = "Fix", warn = false) public static Value fneg(Value a) { return fromBig(toBig(a).negate()); }
  @TLAPlusOperator(identifier = "FAbs", module = "Fix", warn = false) public static Value fabs(Value a) { return fromBig(toBig(a).abs()); }
  @TLAPlusOperator(identifier = "FAdd", module = "Fix", warn = false) public static Value fadd(Value a, Value b) { return fromBig(toBig(a).add(toBig(b))); }
  @TLAPlusOperator(identifier = "FSub", module = "Fix", warn = false) public static Value fsub(Value a, Value b) { return fromBig(toBig(a).subtract(toBig(b))); }
  @TLAPlusOperator(identifier = "FCmp", module = "Fix", warn = false) public static Value fcmp(Value a, Value b) { return IntValue.gen(toBig(a).compareTo(toBig(b))); }
  @TLAPlusOperator(identifier = "FLe", module = "Fix", warn = false) public static Value fle(Value a, Value b) { return bool(toBig(a).compareTo(toBig(b)) <= 0); }
  @TLAPlusOperator(identifier = "FLt", module = "Fix", warn = false) public static Value flt(Value a, Value b) { return bool(toBig(a).compareTo(toBig(b)) < 0); }
  @TLAPlusOperator(identifier = "FMax", module = "Fix", warn = false) public static Value fmax(Value a, Value b) { return fromBig(toBig(a).max(toBig(b))); }
  @TLAPlusOperator(identifier = "FMin", module = "Fix", warn = false) public static Value fmin(Value a, Value b) { return fromBig(toBig(a).min(toBig(b))); }
  @TLAPlusOperator(identifier = "FMul", module = "Fix", warn = false) public static Value fmul(Value a, Value b) { return fromBig(mul(toBig(a), toBig(b))); }
  @TLAPlusOperator(identifier = "FDiv", module = "Fix", warn = false) public static Value fdiv(Value a, Value b) { return fromBig(div(toBig(a), toBig(b))); }
  @TLAPlusOperator(identifier = "FDivInt", module = "Fix", warn = false) public static Value fdivint(Value a, Value k) { return fromBig(toBig(a).divide(BigInteger.valueOf(iv(k)))); }
  @TLAPlusOperator(identifier = "FMulInt", module = "Fix", warn = false) public static Value fmulint(Value a, Value k) { return fromBig(toBig(a).multiply(BigInteger.valueOf(iv(k)))); }
  @TLAPlusOperator(identifier = "FPow2", module = "Fix", warn = false) public static Value fpow2(Value e) { int k = iv(e); return fromBig(k >= -F ? BigInteger.ONE.shiftLeft(F + k) : BigInteger.ZERO); }
  @TLAPlusOperator(identifier = "FSqrt", module = "Fix", warn = false) public static Value fsqrt(Value a) { BigInteger x = toBig(a); return fromBig(x.signum() <= 0 ? BigInteger.ZERO : x.shiftLeft(F).sqrt()); }
  @TLAPlusOperator(identifier = "FLog2", module = "Fix", warn = false) public static Value flog2(Value a) { BigInteger x = toBig(a).abs(); return IntValue.gen(x.signum() == 0 ? -100000 : x.bitLength() - 1 - F); }
  @TLAPlusOperator(identifier = "FRatioMilli", module = "Fix", warn = false) public static Value fratio(Value a, Value b) {
    BigInteger x = toBig(a), y = toBig(b); if (y.signum() == 0) return IntValue.gen(x.signum() == 0 ? 0 : 2000000000);
    BigInteger r = x.multiply(BigInteger.valueOf(1000)).divide(y); return IntValue.gen(r.compareTo(BigInteger.valueOf(30000L * 32768L)) >= 0 ? 2000000000 : r.intValue()); }
  @TLAPlusOperator(identifier = "FDbl", module = "Fix", warn = false) public static Value fdbl(Value hi, Value lo) {
    long bits = (((long) iv(hi)) << 32) | (((long) iv(lo)) & 0xffffffffL);
    int e = (int) ((bits >> 52) & 0x7ff); long m = bits & 0xfffffffffffffL;
    BigInteger mant; int exp; if (e == 0) { mant = BigInteger.valueOf(m); exp = -1074; } else { mant = BigInteger.valueOf(m | (1L << 52)); exp = e - 1075; }
    int sh = F + exp; BigInteger r = sh >= 0 ? mant.shiftLeft(sh) : mant.shiftRight(-sh);
    return fromBig(bits < 0 ? r.negate() : r);
  }
  @TLAPlusOperator(identifier = "FSum", module = "Fix", warn = false) public static Value fsum(Value s) { BigInteger r = BigInteger.ZERO; for (BigInteger x : toVec(s)) r = r.add(x); return fromBig(r); }
  @TLAPlusOperator(identifier = "VMaxAbs", module = "Fix", warn = false) public static Value vmaxabs(Value s) { BigInteger r = BigInteger.ZERO; for (BigInteger x : toVec(s)) r = r.max(x.abs()); return fromBig(r); }
  @TLAPlusOperator(identifier = "VAdd", module = "Fix", warn = false) public static Value vadd(Value a, Value b) { BigInteger[] x = toVec(a), y = toVec(b); for (int i = 0; i < x.length; i++) x[i] = x[i].add(y[i]); return fromVec(x); }
  @TLAPlusOperator(identifier = "VSub", module = "Fix", warn = false) public static Value vsub(Value a, Value b) { BigInteger[] x = toVec(a), y = toVec(b); for (int i = 0; i < x.length; i++) x[i] = x[i].subtract(y[i]); return fromVec(x); }
  @TLAPlusOperator(identifier = "VNeg", module = "Fix", warn = false) public static Value vneg(Value a) { BigInteger[] x = toVec(a); for (int i = 0; i < x.length; i++) x[i] = x[i].negate(); return fromVec(x); }
  @TLAPlusOperator(identifier = "VScale", module = "Fix", warn = false) public static Value vscale(Value a, Value s) { BigInteger[] x = toVec(a); BigInteger k = toBig(s); for (int i = 0; i < x.length; i++) x[i] = mul(x[i], k); return fromVec(x); }
  @TLAPlusOperator(identifier = "VDot", module = "Fix", warn = false) public static Value vdot(Value a, Value b) { BigInteger[] x = toVec(a), y = toVec(b); BigInteger r = BigInteger.ZERO; for (int i = 0; i < x.length; i++) r = r.add(mul(x[i], y[i])); return fromBig(r); }
  @TLAPlusOperator(identifier = "MMul", module = "Fix", warn = false) public static Value mmul(Value a, Value b) {
    BigInteger[][] A = toMat(a), Bm = toMat(b); int n = A.length, k = Bm.length, p = Bm[0].length; BigInteger[][] C = new BigInteger[n][p];
    for (int i = 0; i < n; i++) for (int j = 0; j < p; j++) { BigInteger s = BigInteger.ZERO; for (int l = 0; l < k; l++) s = s.add(mul(A[i][l], Bm[l][j])); C[i][j] = s; }
    return fromMat(C); }
  @TLAPlusOperator(identifier = "MAdd", module = "Fix", warn = false) public static Value madd(Value a, Value b) {
    BigInteger[][] A = toMat(a), Bm = toMat(b); for (int i = 0; i < A.length; i++) for (int j = 0; j < A[i].length; j++) A[i][j] = A[i][j].add(Bm[i][j]); return fromMat(A); }
  @TLAPlusOperator(identifier = "MSub", module = "Fix", warn = false) public static Value msub(Value a, Value b) {
    BigInteger[][] A = toMat(a), Bm = toMat(b); for (int i = 0; i < A.length; i++) for (int j = 0; j < A[i].length; j++) A[i][j] = A[i][j].subtract(Bm[i][j]); return fromMat(A); }
  @TLAPlusOperator(identifier = "MNeg", module = "Fix", warn = false) public static Value mneg(Value a) {
    BigInteger[][] A = toMat(a); for (int i = 0; i < A.length; i++) for (int j = 0; j < A[i].length; j++) A[i][j] = A[i][j].negate(); return fromMat(A); }
  @TLAPlusOperator(identifier = "MScale", module = "Fix", warn = false) public static Value mscale(Value a, Value s) {
    BigInteger[][] A = toMat(a); BigInteger k = toBig(s); for (int i = 0; i < A.length; i++) for (int j = 0; j < A[i].length; j++) A[i][j] = mul(A[i][j], k); return fromMat(A); }
  @TLAPlusOperator(identifier = "MDivInt", module = "Fix", warn = false) public static Value mdivint(Value a, Value kk) {
    BigInteger[][] A = toMat(a); BigInteger k = BigInteger.valueOf(iv(kk)); for (int i = 0; i < A.length; i++) for (int j = 0; j < A[i].length; j++) A[i][j] = A[i][j].divide(k); return fromMat(A); }
  @TLAPlusOperator(identifier = "MVec", module = "Fix", warn = false) public static Value mvec(Value a, Value v) {
    BigInteger[][] A = toMat(a); BigInteger[] x = toVec(v); BigInteger[] r = new BigInteger[A.length];
    for (int i = 0; i < A.length; i++) { BigInteger s = BigInteger.ZERO; for (int k = 0; k < x.length; k++) s = s.add(mul(A[i][k], x[k])); r[i] = s; } return fromVec(r); }
  @TLAPlusOperator(identifier = "MMaxAbs", module = "Fix", warn = false) public static Value mmaxabs(Value a) {
    BigInteger r = BigInteger.ZERO; for (BigInteger[] row : toMat(a)) for (BigInteger x : row) r = r.max(x.abs()); return fromBig(r); }
  @TLAPlusOperator(identifier = "MFrob", module = "Fix", warn = false) public static Value mfrob(Value a, Value b) {
    BigInteger[][] A = toMat(a), Bm = toMat(b); BigInteger r = BigInteger.ZERO; for (int i = 0; i < A.length; i++) for (int j = 0; j < A[i].length; j++) r = r.add(mul(A[i][j], Bm[i][j])); return fromBig(r); }
  @TLAPlusOperator(identifier = "MAbs", module = "Fix", warn = false) public static Value mabs(Value a) {
    BigInteger[][] A = toMat(a); for (int i = 0; i < A.length; i++) for (int j = 0; j < A[i].length; j++) A[i][j] = A[i][j].abs(); return fromMat(A); }
  static int ratio(BigInteger x, BigInteger y) { if (y.signum() == 0) return x.signum() == 0 ? 0 : 2000000000;
    BigInteger r = x.multiply(BigInteger.valueOf(1000)).divide(y); return r.compareTo(BigInteger.valueOf(30000L * 32768L)) >= 0 ? 2000000000 : r.intValue(); }
  @TLAPlusOperator(identifier = "MRatioMilli", module = "Fix", warn = false) public static Value mratio(Value a, Value c, Value t) {
    BigInteger[][] A = toMat(a), C = toMat(c), T = toMat(t); int m = 0;
    for (int i = 0; i < A.length; i++) for (int j = 0; j < A[i].length; j++) m = Math.max(m, ratio(A[i][j].subtract(C[i][j]).abs(), T[i][j]));
    return IntValue.gen(m); }
  @TLAPlusOperator(identifier = "MStrict", module = "Fix", warn = false) public static Value mstrict(Value a) { return fromMat(toMat(a)); }
  @TLAPlusOperator(identifier = "VStrict", module = "Fix", warn = false) public static Value vstrict(Value a) { return fromVec(toVec(a)); }
  // Gauss-Jordan with partial pivoting in the same fixed point (agrees with the cofactor
  // definition up to rounding in the last bits; compared with a tolerance in FixSelfTest)
  static BigInteger[][] inv(BigInteger[][] A0) {
    int n = A0.length; BigInteger[][] A = new BigInteger[n][2 * n];
    for (int i = 0; i < n; i++) for (int j = 0; j < 2 * n; j++) A[i][j] = j < n ? A0[i][j] : (j - n == i ? ONE : BigInteger.ZERO);
    for (int c = 0; c < n; c++) {
      int p = c; for (int r = c + 1; r < n; r++) if (A[r][c].abs().compareTo(A[p][c].abs()) > 0) p = r;
      if (A[p][c].signum() == 0) throw new RuntimeException("MInv: singular matrix");
      BigInteger[] t = A[p]; A[p] = A[c]; A[c] = t;
      BigInteger piv = A[c][c];
      for (int j = 0; j < 2 * n; j++) A[c][j] = div(A[c][j], piv);
      for (int r = 0; r < n; r++) if (r != c && A[r][c].signum() != 0) { BigInteger f = A[r][c]; for (int j = 0; j < 2 * n; j++) A[r][j] = A[r][j].subtract(mul(f, A[c][j])); }
    }
    BigInteger[][] R = new BigInteger[n][n]; for (int i = 0; i < n; i++) for (int j = 0; j < n; j++) R[i][j] = A[i][n + j]; return R;
  }
  @TLAPlusOperator(identifier = "MInv", module = "Fix", warn = false) public static Value minv(Value a) { return fromMat(inv(toMat(a))); }
}
