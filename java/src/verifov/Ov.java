package verifov;
public class Ov implements tlc2.overrides.ITLCOverrides {
  @SuppressWarnings("rawtypes") public Class[] get() { return new Class[] { FixOv.class }; }
}
