SPECIFICATION ASpec
POSTCONDITION TraceAccepted
CHECK_DEADLOCK FALSE
