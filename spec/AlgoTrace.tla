------------------------------ MODULE AlgoTrace ------------------------------
(***************************************************************************)
(* C15 (interpolation), C16 (averages), C18 (approximate equality):        *)
(* postconditions of the algorithm entry points over the matrix model.     *)
(* Logarithms that a postcondition needs (B (-) A, X_i (-) m) are logged   *)
(* by the recorder as WITNESSES; the specification first verifies each     *)
(* witness with IsLog (its exponential series reproduces the relative      *)
(* transform, angle <= pi) and only then uses it.                          *)
(* These properties are about the semantics of the routines, not about     *)
(* last-digit accuracy (that is C02..C06), so comparisons use the          *)
(* algorithm-grade tolerance AG = 2^12 working precisions (4.7e-10).       *)
(***************************************************************************)
EXTENDS ManifTrace

AG(ev) == FMulInt(WPOf(ev), 4096)
\* unit scale on every entry of the homogeneous matrix that can vary (rotation block and the support of the
\* generators): averages of O(1) clouds are compared at the scale of the cloud, not of an entry that happens to be ~0
VarOnes(g) == [r \in 1..MatN(g) |-> [c \in 1..MatN(g) |->
   IF \E i \in 1..DoF(g) : \E e \in GenEntries(g, i) : e[1] = r /\ e[2] = c THEN O ELSE Z]]
AbsV(g, A) == MAdd(AbsR(g, A), VarOnes(g))
BADR == 2000000000
Close(ev, g, X, Y, S) == MRatioMilli(X, Y, TolMat(S, AG(ev), Z, FloorOf(ev)))
WitnessOK(ev, g, Rel, S, tau) ==
  /\ Close(ev, g, ExpOf(g, tau), Rel, MAdd(S, SExp(g, tau))) <= 1000
  /\ FLe(Theta(g, tau), FMul(Pi, FAdd(O, FPow2(-20))))

-----------------------------------------------------------------------------
(* C15 *)
InterpItems(ev) ==
  LET g == ev.g IN
  IF ev.pk \in {"below", "above", "nan"} THEN << Item("rejects", IF ev.exc = "raised" THEN 0 ELSE BADR) >>
  ELSE IF ev.exc # "none" THEN << Item("accepts", BADR) >>
  ELSE LET A == M(g, DV(ev.a))  Bm == M(g, DV(ev.b))  Rm == M(g, DV(ev.r))  s == D(ev.par)
           w == DV(ev.w)
           Rel == MMul(MInv(A), Bm)
           Sab == MMul(AbsR(g, A), SExp(g, w))
           Lm == M(g, DV(ev.L))
       IN (IF ev.pk = "zero" THEN << Item("end0", Close(ev, g, Rm, A, MAdd(AbsR(g, A), Sab))) >> ELSE << >>)
          \o (IF ev.pk = "one" THEN << Item("end1", Close(ev, g, Rm, Bm, MAdd(AbsR(g, Bm), Sab))) >> ELSE << >>)
          \o (IF ev.method = "SLERP"
              THEN << Item("geodesic", IF WitnessOK(ev, g, Rel, MMul(AbsR(g, MInv(A)), AbsR(g, Bm)), w)
                                       THEN Close(ev, g, Rm, MMul(A, ExpOf(g, VScale(w, s))), Sab) ELSE BADR) >>
              ELSE << >>)
          \o << Item("equivariant", Close(ev, g, M(g, DV(ev.rl)), MMul(Lm, Rm), MMul(AbsR(g, Lm), MAdd(AbsR(g, Rm), Sab)))) >>

\* smoothing polynomial of degree m: the normalised integral of t^m (1-t)^m  (=> phi(0)=0, phi(1)=1, monotone)
Binom(n, k) == LET RECURSIVE Bn(_,_)
                   Bn(a, b) == IF b = 0 \/ b = a THEN 1 ELSE Bn(a - 1, b - 1) + Bn(a - 1, b)
               IN Bn(n, k)
RECURSIVE FPowN(_,_)
FPowN(x, n) == IF n = 0 THEN O ELSE FMul(x, FPowN(x, n - 1))
PhiInt(m, t) == FSum([k \in 1..(m + 1) |->
                  LET kk == k - 1
                      term == FDivInt(FMulInt(FPowN(t, m + kk + 1), Binom(m, kk)), m + kk + 1)
                  IN IF kk % 2 = 0 THEN term ELSE FNeg(term)])
PhiSpec(m, t) == FDiv(PhiInt(m, t), PhiInt(m, O))
PhiItems(ev) ==
  IF ev.deg \in 1..4
  THEN IF ev.exc # "none" THEN << Item("supported", BADR) >>
       ELSE << Item("phi", VRatio(<<D(ev.v)>>, <<PhiSpec(ev.deg, D(ev.tt))>>, <<FAdd(FMulInt(WPOf(ev), 8), FloorOf(ev))>>)) >>
  ELSE << Item("unsupported_raises", IF ev.exc = "raised" THEN 0 ELSE BADR) >>
\* in-spec facts about the model polynomial (evaluated once by TLC)
PhiFacts == \A m \in 1..4 : /\ PhiSpec(m, Z) = Z
                            /\ FLe(FAbs(FSub(PhiSpec(m, O), O)), FPow2(-150))
                            /\ \A k \in 0..15 : FLe(PhiSpec(m, FDivInt(FInt(k), 16)), PhiSpec(m, FDivInt(FInt(k + 1), 16)))
ASSUME PhiFacts

-----------------------------------------------------------------------------
(* C16 *)
SqrtEps(ev) == FSqrt(IF ev.sc = "f" THEN FMulInt(FPow2(-23), 100) ELSE FMulInt(FPow2(-52), 100))
MeanVec(ws, n) == [i \in 1..Len(ws[1]) |-> FDivInt(FSum([k \in 1..n |-> ws[k][i]]), n)]
AvgItems(ev) ==
  LET g == ev.g IN
  IF ev.kind = "empty" THEN << Item("empty_raises", IF ev.exc = "raised" THEN 0 ELSE BADR) >>
  ELSE IF ev.exc # "none" THEN << Item("returns", BADR) >>
  ELSE LET m == DV(ev.m)  Mm == M(g, m)  n == ev.n
           band == FMulInt(IF ev.sc = "f" THEN FMulInt(FPow2(-23), 100) ELSE FMulInt(FPow2(-52), 100), 2)
           tolS == FMulInt(SqrtEps(ev), 512)     \* 7.6e-5 (double): the iterations stop when the update is below sqrt(eps) = 1.5e-7; two runs from
                                                 \* different starting points then differ by that step amplified by the contraction of the iteration (observed x10)
           loose(X, Y, S) == MRatioMilli(X, Y, TolMat(S, tolS, Z, FloorOf(ev)))
           Lm == M(g, DV(ev.L))  Rg == M(g, DV(ev.R))
           ws == [i \in 1..n |-> DV(ev.wit[i])]
           witOK == \A i \in 1..n : LET Xi == M(g, DV(ev.pts[i])) IN
                        WitnessOK(ev, g, MMul(MInv(Mm), Xi), MMul(AbsR(g, MInv(Mm)), AbsR(g, Xi)), ws[i])
           mean == MeanVec(ws, n)
       IN << Item("valid", FRatioMilli(Dev(g, m), band)),
             Item("containers", IF ev.mlist = ev.m /\ ev.mdeque = ev.m THEN 0 ELSE BADR) >>
          \o (IF ev.kind \in {"n1", "same"} THEN << Item("point", Close(ev, g, Mm, M(g, DV(ev.pts[1])), AbsR(g, Mm))) >> ELSE << >>)
          \o (IF ev.routine # "average" /\ n >= 2
              THEN << Item("stationary", IF witOK THEN VRatio(mean, [i \in 1..Len(mean) |-> Z], [i \in 1..Len(mean) |-> FMulInt(SqrtEps(ev), 2)]) ELSE BADR) >>
              ELSE << >>)
          \o (IF ev.routine # "average" THEN << Item("order", loose(M(g, DV(ev.mperm)), Mm, AbsV(g, Mm))) >> ELSE << >>)
          \o << Item("left", loose(M(g, DV(ev.mleft)), MMul(Lm, Mm), MMul(AbsR(g, Lm), AbsV(g, Mm)))) >>
          \o (IF ev.routine # "average" THEN << Item("right", loose(M(g, DV(ev.mright)), MMul(Mm, Rg), MMul(AbsV(g, Mm), AbsR(g, Rg)))) >> ELSE << >>)

-----------------------------------------------------------------------------
(* C18 *)
Must(b, v) == IF (v = 1) = b THEN 0 ELSE BADR
IsApproxItems(ev) ==
  LET g == ev.g  a == DV(ev.a)  d == DV(ev.d)  eps == D(ev.eps)
      small == FLe(LinCoeffMax(g, a), FInt(2))                \* coordinates O(1): the planned tangent is accurate
      dmax == VMaxAbs(d)
      L0 == LinCoeffMax(g, a)
  IN << Item("reflexive", Must(TRUE, ev.xx)), Item("reflexive_eq", Must(TRUE, ev.eqxx)),
        Item("twin", IF ev.xt = 1 /\ ev.tx = 1 /\ ev.eqxt = 1 THEN 0 ELSE BADR),
        Item("symmetric", IF ev.xy = ev.yx THEN 0 ELSE BADR) >>
     \o (IF small /\ FLe(FMulInt(dmax, 8), eps) THEN << Item("close_accepted", Must(TRUE, ev.xy)) >> ELSE << >>)
     \o (IF small /\ FLe(FMulInt(eps, 8), dmax) /\ FLe(dmax, FPow2(-1)) THEN << Item("far_rejected", Must(FALSE, ev.xy)) >> ELSE << >>)
     \* large coordinates: the planned tangent is still (much) larger than the rounding of the pair's construction
     \* (2^12 u L, with L^2 for SGal3 whose coupling terms multiply two coordinates), so a far pair must still be rejected
     \o (IF ~small /\ FLe(FMulInt(eps, 8), dmax) /\ FLe(dmax, FPow2(-1))
            /\ FLe(FMul(FMulInt(UOf(ev), 4096), IF g.k = "SGal3" THEN FMul(L0, L0) ELSE L0), dmax)
         THEN << Item("far_rejected_large", Must(FALSE, ev.xy)) >> ELSE << >>)
TIsApproxItems(ev) ==
  LET a == DV(ev.t)  b == DV(ev.s)  sm == DV(ev.small)  eps == D(ev.eps)
      na == FSqrt(VDot(a, a))
      diff == VSub(a, b)  nd == FSqrt(VDot(diff, diff))
      relative == FLe(FMulInt(eps, 16), na)                   \* clearly in the relative regime
      smax == VMaxAbs(sm)
  IN << Item("identical", Must(TRUE, ev.aa)), Item("identical_eq", Must(TRUE, ev.eq)),
        Item("symmetric", IF ev.ab = ev.ba /\ ev.zs = ev.sz /\ ev.pq = ev.qp THEN 0 ELSE BADR),
        \* norms straddling eps: the smaller norm is below eps, so the test is the absolute one and 0.1 eps passes
        Item("straddle_accepted", IF ev.pq = 1 /\ ev.qp = 1 THEN 0 ELSE BADR) >>
     \o (IF relative /\ FLe(FMulInt(nd, 8), FMul(eps, na)) THEN << Item("rel_close_accepted", Must(TRUE, ev.ab)) >> ELSE << >>)
     \o (IF relative /\ FLe(FMulInt(FMul(eps, na), 8), nd) THEN << Item("rel_far_rejected", Must(FALSE, ev.ab)) >> ELSE << >>)
     \o (IF FLe(FMulInt(smax, 8), eps) THEN << Item("abs_close_accepted", Must(TRUE, ev.zs)) >> ELSE << >>)
     \o (IF FLe(FMulInt(eps, 8), FMin(smax, FDivInt(smax, 2))) THEN << Item("abs_far_rejected", Must(FALSE, ev.zs)) >> ELSE << >>)

-----------------------------------------------------------------------------
(* Beyond the listed properties: tangents form a vector space (every operator form is the IEEE operation on the
   coefficients: within one unit round-off of the exact result), Jacobian*Tangent is the matrix-vector product,
   pi2pi wraps into [-pi, pi] by a whole number of turns, toRad/toDeg scale by pi/180, Random() is valid. *)
OneUlp(ev, got, exact) == VRatio(got, exact, [i \in 1..Len(exact) |-> FAdd(FMul(FMulInt(UOf(ev), 2), FAbs(exact[i])), FloorOf(ev))])
TArithItems(ev) ==
  LET a == DV(ev.t)  b == DV(ev.s)  k == D(ev.k)  n == Len(a)  J == DM(ev.J)
      jt == MVec(J, a)
      jtol == [i \in 1..n |-> FAdd(FMul(WPOf(ev), VDot([j \in 1..n |-> FAbs(J[i][j])], [j \in 1..n |-> FAbs(a[j])])), FloorOf(ev))]
  IN << Item("add", OneUlp(ev, DV(ev.add), VAdd(a, b))), Item("sub", OneUlp(ev, DV(ev.sub), VSub(a, b))),
        Item("neg", IF DV(ev.neg) = VNeg(a) THEN 0 ELSE BADR),
        Item("muls", OneUlp(ev, DV(ev.muls), VScale(a, k))), Item("smul", IF ev.smul = ev.muls THEN 0 ELSE BADR),
        Item("divs", OneUlp(ev, DV(ev.divs), [i \in 1..n |-> FDiv(a[i], k)])),
        Item("compound", IF ev.pe = ev.add /\ ev.me = ev.sub /\ ev.te = ev.muls /\ ev.de = ev.divs THEN 0 ELSE BADR),
        Item("Jt", VRatio(DV(ev.Jt), jt, jtol)),
        Item("zero", IF \A i \in 1..n : D(ev.zero[i]) = Z THEN 0 ELSE BADR) >>
MiscItems(ev) ==
  LET g == ev.g
      twoPi == FMulInt(Pi, 2)
      wrapOK(i) == LET th == D(ev.th[i])  r == D(ev.wrapped[i])
                       kabs == IF ev.turns[i] < 0 THEN -ev.turns[i] ELSE ev.turns[i]
                       \* the routine subtracts 2 pi once per turn: one rounding at magnitude |theta| per turn
                       sc == FAdd(FMulInt(WPOf(ev), 4), FMulInt(FMul(UOf(ev), FAbs(th)), kabs + 8))
                   IN /\ FLe(FAbs(FSub(FSub(th, FMulInt(twoPi, ev.turns[i])), r)), sc)
                      /\ FLe(FAbs(r), FAdd(Pi, sc))
      deg == D(ev.deg)
      radX == FDivInt(FMul(deg, Pi), 180)
  IN << Item("pi2pi", IF \A i \in 1..Len(ev.th) : wrapOK(i) THEN 0 ELSE BADR),
        Item("toRad", VRatio(<<D(ev.rad)>>, <<radX>>, <<FAdd(FMul(FMulInt(UOf(ev), 4), FAbs(radX)), FloorOf(ev))>>)),
        Item("toDeg", VRatio(<<D(ev.deg2)>>, <<deg>>, <<FAdd(FMul(FMulInt(UOf(ev), 8), FAbs(deg)), FloorOf(ev))>>)),
        Item("random_valid", FRatioMilli(Dev(g, DV(ev.a)), FMulInt(IF ev.sc = "f" THEN FMulInt(FPow2(-23), 100) ELSE FMulInt(FPow2(-52), 100), 2))),
        Item("random_finite", IF FinV(ev.a) /\ FinV(ev.rt) THEN 0 ELSE BADR) >>

AVerdict(ev) ==
  CASE ev.e = "interp" -> IF ev.pk = "nan" \/ AllFinite(ev) THEN InterpItems(ev) ELSE BadFinite
    [] ev.e = "phi" -> PhiItems(ev)
    [] ev.e = "avg" -> AvgItems(ev)
    [] ev.e = "isapprox" -> IsApproxItems(ev)
    [] ev.e = "tisapprox" -> TIsApproxItems(ev)
    [] ev.e = "tarith" -> TArithItems(ev)
    [] ev.e = "misc" -> MiscItems(ev)
    [] OTHER -> Verdict(ev)
ANext == /\ l <= Len(Tr) /\ l' = l + 1
         /\ PrintT(ToJson(<<"V", l, ThetaClass(Tr[l]), LinClass(Tr[l]), GapClass(Tr[l]), AVerdict(Tr[l])>>))
ASpec == Init /\ [][ANext]_l
=============================================================================
