SPECIFICATION Spec
INVARIANT CellOK
INVARIANT CanonOK
INVARIANT Emit
CHECK_DEADLOCK FALSE
