----------------------------- MODULE ApiMatrix -----------------------------
(***************************************************************************)
(* C19: the matrix of one-line client programs                             *)
(*   {documented API entry} x {group} x {scalar} x {storage of operands}   *)
(* that must compile, link and forward to the canonical member.            *)
(*                                                                         *)
(* Entries are named  <kind>.<name>[_<operand>][_J] :                      *)
(*   g.  public member / operator / static helper of LieGroupBase and of   *)
(*       the group classes (README table, lie_group_base.h)                *)
(*   t.  the same for tangents (tangent_base.h); suffix _g / _t / _s / _v  *)
(*       tells the second operand (group, tangent, scalar, Eigen vector)   *)
(*   f.  free function of manif/functions.h                                *)
(*   a.  algorithm (interpolation.h, average.h, decasteljau.h)             *)
(*   _J  the same call with its optional Jacobian outputs requested        *)
(* Each row of Tab:  << entry, canonical member, access, where >>          *)
(*   access "const"  needs no mutation: owning, Map and Map<const> operands*)
(*          "mut"    mutates an operand: owning and Map only               *)
(*          "static" static helper / type-level: the owning type only      *)
(*          "cont"   takes a std::vector of group objects: owning only     *)
(*   where  "all" | "rot" (groups with rotation()) | "trans" (translation())*)
(* The canonical member is what the entry is documented to forward to      *)
(* (operator + -> rplus, plus -> rplus, free function f -> member f, static*)
(* helper -> setter, tangent-side t.rplus(X) -> X.rplus(t), ...).          *)
(*                                                                         *)
(* One TLC state per applicable cell; the invariant Emit prints each cell  *)
(* as JSON for tools/checks/c19.py, which generates, compiles and runs the *)
(* client program of every cell.  A cell that does not compile is an event *)
(* nocompile(cell) that this model never enables.                          *)
(***************************************************************************)
EXTENDS Naturals, Sequences, FiniteSets, TLC, Json

Groups   == {"SO2", "SE2", "SO3", "SE3", "SE_2_3", "SGal3", "R3", "B_SE2_R3", "B_R2_SO3_R1_SE3"}
Scalars  == {"d", "f"}
Storages == {"own", "map", "cmap"}
RotGroups   == {"SO2", "SE2", "SO3", "SE3", "SE_2_3", "SGal3"}
TransGroups == {"SE2", "SE3", "SE_2_3", "SGal3"}

\* entries with optional Jacobian outputs come in pairs  e / e_J  with canonical members  c / c_J
WithJ(rows) == rows \o [i \in 1..Len(rows) |-> <<rows[i][1] \o "_J", rows[i][2] \o "_J", rows[i][3], rows[i][4]>>]

GroupTab == WithJ(<<
  <<"g.inverse", "g.inverse", "const", "all">>,  <<"g.log", "g.log", "const", "all">>,
  <<"g.lift", "g.log", "const", "all">>,         <<"g.compose", "g.compose", "const", "all">>,
  <<"g.between", "g.between", "const", "all">>,  <<"g.act", "g.act", "const", "all">>,
  <<"g.rplus", "g.rplus", "const", "all">>,      <<"g.lplus", "g.lplus", "const", "all">>,
  <<"g.plus", "g.rplus", "const", "all">>,       <<"g.rminus", "g.rminus", "const", "all">>,
  <<"g.lminus", "g.lminus", "const", "all">>,    <<"g.minus", "g.rminus", "const", "all">> >>) \o <<
  <<"g.adj", "g.adj", "const", "all">>,          <<"g.isApprox", "g.isApprox", "const", "all">>,
  <<"g.op==", "g.isApprox", "const", "all">>,
  <<"g.op+", "g.rplus", "const", "all">>,        <<"g.op-", "g.rminus", "const", "all">>,
  <<"g.op*", "g.compose", "const", "all">>,      <<"g.op+=", "g.rplus", "mut", "all">>,
  <<"g.op*=", "g.compose", "mut", "all">>,       <<"g.op[]", "g.op[]", "const", "all">>,
  <<"g.op<<", "g.op<<", "const", "all">>,
  <<"g.setIdentity", "g.setIdentity", "mut", "all">>, <<"g.setRandom", "g.setRandom", "mut", "all">>,
  <<"g.Identity", "g.setIdentity", "static", "all">>, <<"g.Random", "g.setRandom", "static", "all">>,
  <<"g.coeffs", "g.coeffs", "const", "all">>,    <<"g.data", "g.data", "const", "all">>,
  <<"g.cast_d", "g.cast_d", "const", "all">>,    <<"g.cast_f", "g.cast_f", "const", "all">>,
  <<"g.transform", "g.transform", "const", "all">>, <<"g.rotation", "g.rotation", "const", "rot">>,
  <<"g.translation", "g.translation", "const", "trans">>,
  <<"g.size", "g.RepSize", "const", "all">>,     <<"g.Dim", "g.Dim", "const", "all">>,
  <<"g.DoF", "g.DoF", "const", "all">>,         <<"g.RepSize", "g.RepSize", "const", "all">> >>

TangentTab == WithJ(<<
  <<"t.exp", "t.exp", "const", "all">>,          <<"t.retract", "t.exp", "const", "all">>,
  <<"t.rplus_g", "g.rplus", "const", "all">>,    <<"t.lplus_g", "g.lplus", "const", "all">>,
  <<"t.plus_g", "g.lplus", "const", "all">>,     <<"t.plus_t", "t.plus_t", "const", "all">>,
  <<"t.minus_t", "t.minus_t", "const", "all">> >>) \o <<
  <<"t.hat", "t.hat", "const", "all">>,          <<"t.rjac", "t.rjac", "const", "all">>,
  <<"t.ljac", "t.ljac", "const", "all">>,        <<"t.rjacinv", "t.rjacinv", "const", "all">>,
  <<"t.ljacinv", "t.ljacinv", "const", "all">>,  <<"t.smallAdj", "t.smallAdj", "const", "all">>,
  <<"t.inner", "t.inner", "const", "all">>,      <<"t.weightedNorm", "t.weightedNorm", "const", "all">>,
  <<"t.squaredWeightedNorm", "t.squaredWeightedNorm", "const", "all">>,
  <<"t.op+_g", "g.lplus", "const", "all">>,      <<"t.op+_t", "t.op+_t", "const", "all">>,
  <<"t.op-_t", "t.op-_t", "const", "all">>,      <<"t.op*_s", "t.op*_s", "const", "all">>,
  <<"t.s_op*", "t.op*_s", "const", "all">>,      <<"t.op/_s", "t.op/_s", "const", "all">>,
  <<"t.op-neg", "t.op-neg", "const", "all">>,    <<"t.J_op*", "t.J_op*", "const", "all">>,
  <<"t.op+_v", "t.op+_v", "const", "all">>,      <<"t.op-_v", "t.op-_v", "const", "all">>,
  <<"t.v_op+", "t.op+_v", "const", "all">>,      <<"t.v_op-", "t.v_op-", "const", "all">>,
  <<"t.op+=_t", "t.op+_t", "mut", "all">>,       <<"t.op-=_t", "t.op-_t", "mut", "all">>,
  <<"t.op+=_v", "t.op+_v", "mut", "all">>,       <<"t.op-=_v", "t.op-_v", "mut", "all">>,
  <<"t.op*=", "t.op*_s", "mut", "all">>,         <<"t.op/=", "t.op/_s", "mut", "all">>,
  <<"t.op==_t", "t.isApprox_t", "const", "all">>,    <<"t.op==_v", "t.isApprox_v", "const", "all">>,
  <<"t.op[]", "t.op[]", "const", "all">>,        <<"t.op<<", "t.op<<", "const", "all">>,
  <<"t.setZero", "t.setZero", "mut", "all">>,    <<"t.setRandom", "t.setRandom", "mut", "all">>,
  <<"t.setVee", "t.setVee", "mut", "all">>,      <<"t.Zero", "t.setZero", "static", "all">>,
  <<"t.Random", "t.setRandom", "static", "all">>, <<"t.Generator", "t.Generator", "static", "all">>,
  <<"t.generator", "t.generator", "const", "all">>, <<"t.InnerWeights", "t.InnerWeights", "static", "all">>,
  <<"t.innerWeights", "t.innerWeights", "const", "all">>, <<"t.Vee", "t.setVee", "static", "all">>,
  <<"t.Bracket", "t.bracket", "const", "all">>,  <<"t.bracket", "t.bracket", "const", "all">>,
  <<"t.isApprox_t", "t.isApprox_t", "const", "all">>, <<"t.isApprox_v", "t.isApprox_v", "const", "all">>,
  <<"t.coeffs", "t.coeffs", "const", "all">>,    <<"t.data", "t.data", "const", "all">>,
  <<"t.cast_d", "t.cast_d", "const", "all">>,    <<"t.cast_f", "t.cast_f", "const", "all">>,
  <<"t.size", "t.RepSize", "const", "all">>,     <<"t.Dim", "t.Dim", "const", "all">>,
  <<"t.DoF", "t.DoF", "const", "all">>,         <<"t.RepSize", "t.RepSize", "const", "all">> >>

FreeTab == WithJ(<<
  <<"f.inverse", "g.inverse", "const", "all">>,  <<"f.log", "g.log", "const", "all">>,
  <<"f.lift", "g.log", "const", "all">>,         <<"f.exp", "t.exp", "const", "all">>,
  <<"f.retract", "t.exp", "const", "all">>,      <<"f.compose", "g.compose", "const", "all">>,
  <<"f.between", "g.between", "const", "all">>,  <<"f.act", "g.act", "const", "all">>,
  <<"f.rplus", "g.rplus", "const", "all">>,      <<"f.lplus", "g.lplus", "const", "all">>,
  <<"f.plus", "g.rplus", "const", "all">>,       <<"f.rminus", "g.rminus", "const", "all">>,
  <<"f.lminus", "g.lminus", "const", "all">>,    <<"f.minus", "g.rminus", "const", "all">> >>) \o <<
  <<"f.coeffs_g", "g.coeffs", "const", "all">>,  <<"f.coeffs_t", "t.coeffs", "const", "all">>,
  <<"f.data_g", "g.data", "const", "all">>,      <<"f.data_t", "t.data", "const", "all">>,
  <<"f.identity", "g.setIdentity", "mut", "all">>, <<"f.Identity", "g.setIdentity", "static", "all">>,
  <<"f.zero", "t.setZero", "mut", "all">>,       <<"f.Zero", "t.setZero", "static", "all">>,
  <<"f.random_g", "g.setRandom", "mut", "all">>, <<"f.random_t", "t.setRandom", "mut", "all">>,
  <<"f.Random_g", "g.setRandom", "static", "all">>, <<"f.Random_t", "t.setRandom", "static", "all">> >>

AlgoTab == <<
  <<"a.interpolate(SLERP)", "a.interpolate_slerp", "const", "all">>,
  <<"a.interpolate(CUBIC)", "a.interpolate_cubic", "const", "all">>,
  <<"a.interpolate(CNSMOOTH)", "a.interpolate_smooth", "const", "all">>,
  <<"a.interpolate_slerp", "a.interpolate_slerp", "const", "all">>,
  <<"a.interpolate_cubic", "a.interpolate_cubic", "const", "all">>,
  <<"a.interpolate_smooth", "a.interpolate_smooth", "const", "all">>,
  <<"a.average_biinvariant", "a.average_biinvariant", "cont", "all">>,
  <<"a.average", "a.average", "cont", "all">>,
  <<"a.average_frechet_left", "a.average_frechet_left", "cont", "all">>,
  <<"a.average_frechet_right", "a.average_frechet_right", "cont", "all">>,
  <<"a.decasteljau", "a.decasteljau", "cont", "all">> >>

Tab == GroupTab \o TangentTab \o FreeTab \o AlgoTab

Entries == {Tab[i][1] : i \in DOMAIN Tab}
RowOf == [e \in Entries |-> Tab[CHOOSE i \in DOMAIN Tab : Tab[i][1] = e]]     \* evaluated once
Row(e)  == RowOf[e]
Canon(e)  == Row(e)[2]
Access(e) == Row(e)[3]
Mutating(e) == Access(e) = "mut"

StoragesOf(e) == CASE Access(e) = "const" -> Storages
                   [] Access(e) = "mut"   -> {"own", "map"}
                   [] OTHER               -> {"own"}            \* static helpers, containers of owning objects
GroupsOf(e) == CASE Row(e)[4] = "rot" -> RotGroups [] Row(e)[4] = "trans" -> TransGroups [] OTHER -> Groups

Applicable(e, k) == k \in StoragesOf(e)
Exists(e, g)     == g \in GroupsOf(e)

Cells == {c \in [entry : Entries, g : Groups, sc : Scalars, k : Storages] :
            Exists(c.entry, c.g) /\ Applicable(c.entry, c.k)}

-----------------------------------------------------------------------------
VARIABLE cell
Init == cell \in Cells
Next == UNCHANGED cell
Spec == Init /\ [][Next]_cell

-----------------------------------------------------------------------------
(* facts about the table (checked by TLC) *)
CellsOf(e) == Cardinality(GroupsOf(e)) * Cardinality(Scalars) * Cardinality(StoragesOf(e))
Excluded(e) == Cardinality(Groups) * Cardinality(Scalars) * Cardinality(Storages) - CellsOf(e)

RECURSIVE SumExcluded(_)
SumExcluded(S) == IF S = {} THEN 0 ELSE LET x == CHOOSE y \in S : TRUE IN Excluded(x) + SumExcluded(S \ {x})

NamesUnique == Cardinality(Entries) = Len(Tab)
CanonIsEntry == \A e \in Entries : Canon(e) \in Entries
CanonIdempotent == \A e \in Entries : Canon(Canon(e)) = Canon(e)
\* the canonical member exists and is applicable wherever the entry is (so that it can be evaluated next to it)
CanonApplicable == \A e \in Entries : GroupsOf(e) \subseteq GroupsOf(Canon(e)) /\ StoragesOf(e) \subseteq StoragesOf(Canon(e))
MutatingExcludedForConstViews == \A e \in Entries : Mutating(e) => ~Applicable(e, "cmap")
EveryEntryHasACell == \A e \in Entries : \E c \in Cells : c.entry = e
CellCount == Cardinality(Cells) = Len(Tab) * Cardinality(Groups) * Cardinality(Scalars) * Cardinality(Storages)
                                   - SumExcluded(Entries)
\* constant-level facts: checked once, before any state is generated (TLC evaluates ASSUMEs first)
ASSUME TableOK == NamesUnique /\ CanonIsEntry /\ CanonIdempotent /\ CanonApplicable /\ MutatingExcludedForConstViews
                  /\ EveryEntryHasACell /\ CellCount

\* the same facts per state (invariants): the cell respects its entry's restrictions and its canonical member is
\* an entry that can be evaluated on the same operands
CellOK == /\ cell \in Cells
          /\ Mutating(cell.entry) => cell.k # "cmap"
          /\ Access(cell.entry) \in {"static", "cont"} => cell.k = "own"
CanonOK == /\ Canon(cell.entry) \in Entries
           /\ Exists(Canon(cell.entry), cell.g) /\ Applicable(Canon(cell.entry), cell.k)

\* plan export: one JSON line per cell
Emit == PrintT(ToJson([entry |-> cell.entry, canon |-> Canon(cell.entry), g |-> cell.g, sc |-> cell.sc, k |-> cell.k,
                       access |-> Access(cell.entry)]))
=============================================================================
