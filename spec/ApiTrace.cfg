SPECIFICATION Spec
POSTCONDITION TraceAccepted
CHECK_DEADLOCK FALSE
