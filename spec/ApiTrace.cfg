SPECIFICATION TSpec
POSTCONDITION TraceAccepted
CHECK_DEADLOCK FALSE
