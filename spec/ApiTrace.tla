----------------------------- MODULE ApiTrace -----------------------------
(***************************************************************************)
(* C19 conformance: every recorded execution of a cell of ApiMatrix.       *)
(* One "api" event per cell: the client program evaluated the entry and,   *)
(* on equal operands, the entry's canonical member, and logged both        *)
(* results as IEEE bit patterns (two signed 32-bit halves per number).     *)
(*   in_matrix  the event is a cell the model enables and names the        *)
(*              canonical member the model prescribes                      *)
(*   forward    the entry forwards to the canonical member: the results    *)
(*              are equal bit for bit (and something was returned)         *)
(* Ratios are 0 (holds) or 2000000000 (violated), printed as one "V" line  *)
(* per event in the format of ManifTrace.                                  *)
(***************************************************************************)
EXTENDS ApiMatrix, Integers, IOUtils

Tr == ndJsonDeserialize(IOEnv.TRACE)

Item(name, ok) == <<name, IF ok THEN 0 ELSE 2000000000>>
Has(ev, f) == f \in DOMAIN ev

\* the cell an event claims to be; `cell` (the variable of ApiMatrix) takes these values along the trace
NoCell == [entry |-> "", g |-> "", sc |-> "", k |-> ""]
CellOf(ev) == IF Has(ev, "entry") /\ Has(ev, "g") /\ Has(ev, "sc") /\ Has(ev, "k")
              THEN [entry |-> ev.entry, g |-> ev.g.k, sc |-> ev.sc, k |-> ev.k] ELSE NoCell
InMatrix(ev) == CellOf(ev) \in Cells /\ ev.canon = Canon(ev.entry)
Forwards(ev) == ~Has(ev, "exc") /\ Len(ev.res) > 0 /\ ev.res = ev.canon_res

Verdict(ev) == IF ev.e = "api" /\ Has(ev, "res") /\ Has(ev, "canon_res") /\ Has(ev, "canon")
               THEN << Item("in_matrix", InMatrix(ev)), Item("forward", Forwards(ev)) >>
               ELSE << Item("unknown_event", FALSE) >>

VARIABLE l
TInit == l = 1 /\ cell = NoCell
TNext == /\ l <= Len(Tr) /\ l' = l + 1 /\ cell' = CellOf(Tr[l])
         /\ PrintT(ToJson(<<"V", l, -99999, -99999, 99999, Verdict(Tr[l])>>))
TSpec == TInit /\ [][TNext]_<<l, cell>>
TraceAccepted == TLCGet("stats").diameter - 1 = Len(Tr)
=============================================================================
