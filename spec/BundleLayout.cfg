INIT Init
NEXT Next
INVARIANT LayoutLaws
INVARIANT Covering
INVARIANT Emit
