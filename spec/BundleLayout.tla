---------------------------- MODULE BundleLayout ----------------------------
(***************************************************************************)
(* C11: a Bundle is the direct product of its elements.                    *)
(* Enumerates bundle layouts (sequences of element groups), checks on the  *)
(* model that (a) the chosen layout set covers what the property           *)
(* quantifies over -- every group first / middle / last / alone /          *)
(* repeated, and for every two offset tables a layout in which they differ *)
(* (so that confusing DimIdx, DoFIdx, RepSizeIdx, TraIdx, AlgIdx is        *)
(* observable) -- and (b) the direct-product laws of the model itself      *)
(* (hat, generators, ad block diagonal; sizes are sums).  Emits one plan   *)
(* cell per (layout, operation, stratum) for the conformance run.          *)
(***************************************************************************)
EXTENDS LieMath, TLC, Json, IOUtils

Tier == IOEnv.TIER
Kinds == << "SO2", "SE2", "SO3", "SE3", "SE_2_3", "SGal3", "R1", "R3" >>
Desc(k) == IF k = "R1" THEN [k |-> "Rn", n |-> 1] ELSE IF k = "R3" THEN [k |-> "Rn", n |-> 3] ELSE [k |-> k]
BDesc(lay) == [k |-> "Bundle", parts |-> [i \in 1..Len(lay) |-> Desc(lay[i])]]
RECURSIVE Join(_,_)
Join(lay, i) == IF i > Len(lay) THEN "" ELSE (IF i > 1 THEN "." ELSE "") \o lay[i] \o Join(lay, i + 1)
KeyOf(lay) == "B_" \o Join(lay, 1) \o "_d"

\* Latin-square style covering set: every kind first, middle and last; repeated; alone
Cover == << <<"SO2", "SE2", "SO3">>, <<"SE2", "SO3", "SE3">>, <<"SO3", "SE3", "SE_2_3">>, <<"SE3", "SE_2_3", "SGal3">>,
            <<"SE_2_3", "SGal3", "R1">>, <<"SGal3", "R1", "R3">>, <<"R1", "R3", "SO2">>, <<"R3", "SO2", "SE2">>,
            <<"SE3", "SE3">>, <<"SO2", "SO2", "SO2">>, <<"SGal3">>, <<"SE2">> >>
Pairs == { <<Kinds[i], Kinds[j]>> : i, j \in 1..Len(Kinds) }
Layouts == IF Tier = "thorough"
           THEN { Cover[i] : i \in 1..Len(Cover) } \cup { <<Kinds[i]>> : i \in 1..Len(Kinds) } \cup Pairs
                \cup { <<"SO3", "R1", "SGal3", "SO2", "SE3">>, <<"R3", "SE_2_3", "SE2", "SE2", "R1">> }
           ELSE { Cover[i] : i \in 1..Len(Cover) }

CoverSet == { Cover[i] : i \in 1..Len(Cover) }
Occurs(k, pos) == \E lay \in CoverSet : Len(lay) >= 3 /\ lay[pos] = k
CoveringOK ==
  /\ \A i \in 1..Len(Kinds) : Occurs(Kinds[i], 1) /\ Occurs(Kinds[i], 2) /\ Occurs(Kinds[i], 3)
  /\ \E lay \in CoverSet : Len(lay) = 1
  /\ \E lay \in CoverSet : Len(lay) >= 2 /\ lay[1] = lay[2]
  \* any two of the five offset tables differ on some covering layout
  /\ LET Tabs(lay) == LET P == BDesc(lay).parts IN
           << [i \in 1..Len(P) |-> Off(Dim, P, i)], [i \in 1..Len(P) |-> Off(DoF, P, i)], [i \in 1..Len(P) |-> Off(Rep, P, i)],
              [i \in 1..Len(P) |-> Off(MatN, P, i)], [i \in 1..Len(P) |-> Off(AlgN, P, i)] >>
     IN \A a, b \in 1..5 : a # b => \E lay \in CoverSet : Tabs(lay)[a] # Tabs(lay)[b]

\* direct-product laws of the model, on an integer tangent
TanOf(g, s) == [i \in 1..DoF(g) |-> FInt(((i * s) % 7) - 3)]
LawsOK(lay) ==
  LET g == BDesc(lay)  P == g.parts  t == TanOf(g, 3)
      seg(i) == SubSeq(t, Off(DoF, P, i) + 1, Off(DoF, P, i) + DoF(P[i]))
      blocks == [i \in 1..Len(P) |-> Hat(P[i], seg(i))]
      ad == AdMat(g, t)
  IN /\ DoF(g) = SumOver(DoF, P, 1) /\ Rep(g) = SumOver(Rep, P, 1) /\ MatN(g) = SumOver(MatN, P, 1)
     /\ Hat(g, t) = MStrict(BlockDiag(blocks, [i \in 1..Len(P) |-> MatN(P[i])], MatN(g), 0))
     /\ \A i \in 1..DoF(g) : \A j \in 1..DoF(g) : PartOf(DoF, P, i, 1) = PartOf(DoF, P, j, 1) \/ ad[i][j] = Z
     /\ \A i \in 1..Len(P) : MBlock(ad, Off(DoF, P, i) + 1, Off(DoF, P, i) + 1, DoF(P[i]), DoF(P[i])) = AdMat(P[i], seg(i))

Prop == "C11"
Reps == IF Tier = "thorough" THEN 3 ELSE 1
Cell(op, key, thc, linc, hemi, dir, thc2, linc2, jac) ==
  [op |-> op, key |-> key, prop |-> Prop, thc |-> thc, linc |-> linc, hemi |-> hemi, dir |-> dir,
   thc2 |-> thc2, linc2 |-> linc2, jac |-> jac, reps |-> Reps]
\* strata in which the element groups themselves are free of recorded findings (C02..C06), so that a
\* deviation seen here is a deviation of the BUNDLE code: Taylor branch, generic angles, two magnitudes
Ths == << "zero", "small", "generic" >>
OpsJ == {"compose", "inverse", "between", "rplus", "lplus", "rminus", "lminus", "log", "exp", "act"}
Ops0 == {"transform", "jacs", "adj", "belem", "bwrite"}
CellsOf(lay) ==
  { Cell(op, KeyOf(lay), Ths[i], IF i = 2 THEN "1e3" ELSE "1", "any", "generic", Ths[4 - i], "1", 1) : op \in OpsJ, i \in 1..3 }
  \cup { Cell(op, KeyOf(lay), Ths[i], IF i = 3 THEN "1e3" ELSE "1", "any", "generic", "generic", "1", 0) : op \in Ops0, i \in 1..3 }
  \cup { Cell(op, KeyOf(lay), "-", "-", "-", "-", "-", "-", 0) : op \in {"identity", "generator", "layout"} }
  \cup { Cell("algebra", KeyOf(lay), k, "-", "-", "-", "-", "-", 0) : k \in {"int", "real"} }

VARIABLE lay
Init == lay \in Layouts
Next == UNCHANGED lay
LayoutLaws == LawsOK(lay)
Covering == CoveringOK
Emit == PrintT(ToJson([layout |-> lay, key |-> KeyOf(lay), cells |-> CellsOf(lay)]))
=============================================================================
