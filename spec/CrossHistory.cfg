SPECIFICATION CSpec
POSTCONDITION TraceAccepted
CHECK_DEADLOCK FALSE
