----------------------------- MODULE CrossHistory -----------------------------
(* C09, across processes: the same call (group, event kind, operand bits) must return the same bits whatever was
   called before it -- in this process or in another process that used the library's groups in a different order.
   The trace is the concatenation of several executions of harness/rec_mixed (21 group types interleaved in seeded
   orders); the state is the memo of every call seen so far. *)
EXTENDS ManifTrace
VARIABLE memo
Ins == {"t", "s", "i"}
Outs == {"hat", "vee", "br", "inner", "wn", "swn", "W", "rm", "exc", "r", "r2"}
KeyOf(ev) == <<ev.g, ev.sc, ev.e, [f \in Ins \cap DOMAIN ev |-> ev[f]]>>
ValOf(ev) == [f \in Outs \cap DOMAIN ev |-> ev[f]]
CNext == /\ l <= Len(Tr) /\ l' = l + 1
         /\ LET ev == Tr[l]  k == KeyOf(ev)
                same == (k \in DOMAIN memo) => memo[k] = ValOf(ev)
            IN /\ memo' = IF k \in DOMAIN memo THEN memo ELSE memo @@ (k :> ValOf(ev))
               /\ PrintT(ToJson(<<"V", l, -99999, -99999, 99999, << Item("same_across_histories", IF same THEN 0 ELSE 2000000000) >> >>))
CSpec == l = 1 /\ memo = << >> /\ [][CNext]_<<l, memo>>
=============================================================================
