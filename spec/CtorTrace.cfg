SPECIFICATION CtSpec
POSTCONDITION TraceAccepted
CHECK_DEADLOCK FALSE
