------------------------------ MODULE CtorTrace ------------------------------
(***************************************************************************)
(* C13: construction, accessors, conversions and validation.               *)
(*                                                                         *)
(* Events are written by harness/rec_ctor.cpp, built once with MANIF_ASSERT*)
(* active ("mode":"assert") and once with -DNDEBUG ("mode":"ndebug").      *)
(*                                                                         *)
(* MODEL of a construction (matrix model only, never a closed form of the  *)
(* implementation).  The field "rs" says how the rotation was supplied:    *)
(*   angle    rotation by theta:        exp(theta E)             (series)  *)
(*   complex  (re, im):                 Rot2 of Groups.tla                 *)
(*   quat     (x, y, z, w):             Rot3 of Groups.tla                 *)
(*   aa       angle-axis:               exp(angle hat(axis))     (series)  *)
(*   rpy      roll, pitch, yaw:         exp(yaw Ez) exp(pitch Ey) exp(roll Ex)*)
(*   iso      Eigen isometry:           the supplied matrix itself         *)
(*   coeffs / copy                      M of the supplied coefficients     *)
(*   identity                           the identity matrix                *)
(* and the translation / velocity / time arguments fill the blocks of the  *)
(* homogeneous matrix as laid out in Groups.tla.  Angles covering many     *)
(* turns are logged with an integer k; rotation by theta and by            *)
(* theta - 2 pi k are the same rotation for EVERY integer k, so the model  *)
(* evaluates the series at theta - 2 pi k with the exact Pi of Fix.tla.    *)
(*                                                                         *)
(* VALIDATION.  n = exact norm of the supplied rotation data.  In assert   *)
(* mode a validating form must raise invalid_argument when                 *)
(* |n-1| >= eps + 8u, must not raise when |n-1| <= eps - 8u and is free in *)
(* between (the code compares a rounded norm); in ndebug mode nothing may  *)
(* raise.  Assignment of a raw coefficient vector (operator=) is not a     *)
(* construction: its acceptance of non-unit data is reported as an         *)
(* observation item (ratio 0), not judged.                                 *)
(***************************************************************************)
EXTENDS ManifTrace

CtBad == 2000000000
CtEps(sc) == IF sc = "f" THEN FMulInt(FPow2(-23), 100) ELSE FMulInt(FPow2(-52), 100)
CtU(sc)   == IF sc = "f" THEN FPow2(-24) ELSE FPow2(-53)
CtSame(x, y) == IF x = y THEN 0 ELSE CtBad
CtOnes(n, m) == [i \in 1..n |-> [j \in 1..m |-> O]]
CtZeros(n)   == [i \in 1..n |-> Z]

\* theta - 2 pi k
CtRed(p, turns) == FSub(D(p), FMulInt(FMulInt(Pi, 2), turns))
CtRot2(th) == MBlock(ExpOf([k |-> "SO2"], <<th>>), 1, 1, 2, 2)
CtRot3(w)  == MBlock(ExpOf([k |-> "SO3"], w), 1, 1, 3, 3)

\* rotation block of the model
CtRotModel(ev) ==
  LET A == ev.args  n == RotDim(ev.g) IN
  CASE ev.rs = "angle"   -> CtRot2(CtRed(A.theta, A.k))
    [] ev.rs = "complex" -> Rot2(D(A.re), D(A.im))
    [] ev.rs = "quat"    -> LET q == DV(A.q) IN Rot3(q[1], q[2], q[3], q[4])
    [] ev.rs = "aa"      -> LET ax == DV(A.axis)  th == CtRed(A.angle, A.k)
                            IN CtRot3(<<FMul(ax[1], th), FMul(ax[2], th), FMul(ax[3], th)>>)
    [] ev.rs = "rpy"     -> MMul(MMul(CtRot3(<<Z, Z, CtRed(A.yaw, A.ky)>>), CtRot3(<<Z, CtRed(A.pitch, A.kp), Z>>)),
                                 CtRot3(<<CtRed(A.roll, A.kr), Z, Z>>))
    [] ev.rs = "iso"     -> MBlock(DM(A.iso), 1, 1, n, n)
    [] OTHER             -> MId(n)

\* homogeneous matrix from rotation block R, translation t, velocity v, time s (layout of Groups.tla)
CtAssemble(g, R, t, v, s) ==
  CASE g.k = "SO2"    -> << R[1] \o <<Z>>, R[2] \o <<Z>>, <<Z, Z, O>> >>
    [] g.k = "SE2"    -> << R[1] \o <<t[1]>>, R[2] \o <<t[2]>>, <<Z, Z, O>> >>
    [] g.k = "SO3"    -> << R[1] \o <<Z>>, R[2] \o <<Z>>, R[3] \o <<Z>>, <<Z, Z, Z, O>> >>
    [] g.k = "SE3"    -> << R[1] \o <<t[1]>>, R[2] \o <<t[2]>>, R[3] \o <<t[3]>>, <<Z, Z, Z, O>> >>
    [] g.k = "SE_2_3" -> << R[1] \o <<t[1], v[1]>>, R[2] \o <<t[2], v[2]>>, R[3] \o <<t[3], v[3]>>,
                            <<Z, Z, Z, O, Z>>, <<Z, Z, Z, Z, O>> >>
    [] g.k = "SGal3"  -> << R[1] \o <<v[1], t[1]>>, R[2] \o <<v[2], t[2]>>, R[3] \o <<v[3], t[3]>>,
                            <<Z, Z, Z, O, s>>, <<Z, Z, Z, Z, O>> >>

CtModel(ev) ==
  LET g == ev.g  A == ev.args  n == RotDim(g)
      tr == IF Has(A, "tr") THEN DV(A.tr)
            ELSE IF ev.rs = "iso" THEN [i \in 1..n |-> D(A.iso[i][n + 1])] ELSE CtZeros(3)
      vel == IF Has(A, "vel") THEN DV(A.vel) ELSE CtZeros(3)
      tm == IF Has(A, "time") THEN D(A.time) ELSE Z
  IN IF ev.rs \in {"coeffs", "copy"} THEN M(g, DV(A.c))
     ELSE IF ev.rs = "identity" THEN MId(MatN(g))
     ELSE MStrict(CtAssemble(g, CtRotModel(ev), tr, vel, tm))

\* squared norm of the supplied rotation data (1 where the form takes none)
CtInSq(ev) ==
  LET A == ev.args IN
  CASE ev.rs = "complex" -> FAdd(FMul(D(A.re), D(A.re)), FMul(D(A.im), D(A.im)))
    [] ev.rs = "quat"    -> VDot(DV(A.q), DV(A.q))
    [] ev.rs = "coeffs"  -> LET rc == RotCoeffs(ev.g, DV(A.c)) IN IF Len(rc) = 0 THEN O ELSE VDot(rc, rc)
    [] OTHER             -> O
CtGapOf(sq) == FAbs(FSub(FSqrt(sq), O))            \* | n - 1 |

\* forms that are constructions / checked setters; operator=(coefficients) is observed only
CtValidating(form) == form # "assign_coeffs"

\* entries outside the rotation block are exact copies of the supplied linear quantities
CtLinExact(g, A, C) ==
  LET N == MatN(g)  n == RotDim(g) IN
  IF \A i \in 1..N : \A j \in 1..N : (i <= n /\ j <= n) \/ A[i][j] = C[i][j] THEN 0 ELSE CtBad

CtCtorItems(ev) ==
  LET g == ev.g  sq == CtInSq(ev)  gap == CtGapOf(sq)
      eps == CtEps(ev.sc)  band == FMulInt(CtU(ev.sc), 8)
      inAccept == FLe(gap, FSub(eps, band))
      inReject == FLe(FAdd(eps, band), gap)
      decide == IF ev.mode = "ndebug" THEN << Item("ndebug_never_rejects", CtSame(ev.exc, "none")) >>
                ELSE IF inAccept THEN << Item("must_accept", CtSame(ev.exc, "none")) >>
                ELSE IF inReject /\ CtValidating(ev.form) THEN << Item("must_reject", CtSame(ev.exc, "invalid_argument")) >>
                ELSE IF inReject /\ ev.exc = "none" THEN << Item("obs_assignment_accepts_nonunit", 0) >>
                ELSE << >>
      kind == << Item("exc_kind", IF ev.exc \in {"none", "invalid_argument"} THEN 0 ELSE CtBad) >>
  IN kind \o decide \o
     (IF ev.exc # "none" THEN << >>
      ELSE LET r == DV(ev.r)  P == CtModel(ev)  Mr == M(g, r)
               delta == FAbs(FSub(sq, O))
           IN << Item("value", IF Len(r) = Rep(g) THEN MRatioMilli(Mr, P, TolMat(AbsR(g, P), WPOf(ev), delta, FloorOf(ev))) ELSE CtBad),
                 Item("lin_exact", CtLinExact(g, Mr, P)) >>
              \o (IF ev.rs \in {"coeffs", "copy"} THEN << Item("stored", CtSame(r, DV(ev.args.c))) >> ELSE << >>)
              \o (IF ev.rs = "identity" THEN << Item("stored", CtSame(r, IdentityCoeffs(g))) >> ELSE << >>))

-----------------------------------------------------------------------------
(* accessors *)
\* component accessor name -> coefficient index
CtComp(g) ==
  CASE g.k = "SO2"    -> << <<"real", 1>>, <<"imag", 2>> >>
    [] g.k = "SE2"    -> << <<"x", 1>>, <<"y", 2>>, <<"real", 3>>, <<"imag", 4>> >>
    [] g.k = "SO3"    -> << <<"x", 1>>, <<"y", 2>>, <<"z", 3>>, <<"w", 4>> >>
    [] g.k = "SE3"    -> << <<"x", 1>>, <<"y", 2>>, <<"z", 3>> >>
    [] g.k = "SE_2_3" -> << <<"x", 1>>, <<"y", 2>>, <<"z", 3>>, <<"vx", 8>>, <<"vy", 9>>, <<"vz", 10>> >>
    [] g.k = "SGal3"  -> << <<"x", 1>>, <<"y", 2>>, <<"z", 3>>, <<"vx", 8>>, <<"vy", 9>>, <<"vz", 10>>, <<"time", 11>> >>
    [] OTHER          -> << >>
\* vector accessor -> first coefficient index
CtVecAcc(g) ==
  CASE g.k = "SE2"    -> << <<"trans", 1, 2>> >>
    [] g.k = "SO3"    -> << <<"quat", 1, 4>> >>
    [] g.k = "SE3"    -> << <<"trans", 1, 3>>, <<"quat", 4, 4>>, <<"asso3c", 4, 4>>, <<"asso3m", 4, 4>> >>
    [] g.k \in {"SE_2_3", "SGal3"} -> << <<"trans", 1, 3>>, <<"quat", 4, 4>>, <<"vel", 8, 3>>, <<"asso3c", 4, 4>>, <<"asso3m", 4, 4>> >>
    [] OTHER          -> << >>
CtHasIso(g) == g.k \in {"SE2", "SE3", "SE_2_3", "SGal3"}
CtFb == {"parts", "angle", "tc", "iso", "xyzw", "so3"}
\* Feedback constructions that re-derive the rotation data through rotation()/isometry() amplify the element's
\* own norm deviation: for q = (1+e) q0 the unnormalised matrix is R0 + 2e (R0 - I) and the quaternion extracted
\* from it has norm 1 + e (1-a)/a with a >= 1/4 the squared pivot coefficient, i.e. up to 3e.  Such a feedback
\* is therefore required not to raise only when 3 | |q| - 1 | <= eps - 16u; outside, a rejection is reported
\* as an observation (ratio 0).  Direct feedback (the stored quaternion / complex number itself) is required
\* whenever the element itself is acceptable.
CtFbDerived == {"angle", "iso"}

CtAccItems(ev) ==
  LET g == ev.g  a == DV(ev.a)  Ma == M(g, a)  n == RotDim(g)  N == MatN(g)
      dev == Dev(g, a)
      tolM == TolMat(AbsR(g, Ma), WPOf(ev), dev, FloorOf(ev))
      tolR == FAdd(FAdd(WPOf(ev), FMulInt(dev, 1024)), FloorOf(ev))
      sized(f, k) == Len(ev[f]) = k /\ \A i \in 1..k : Len(ev[f][i]) = k
      rotItems ==
        IF n = 0 THEN << >>
        ELSE IF ~Has(ev, "rot") \/ ~sized("rot", n) THEN << Item("rot", CtBad) >>
        ELSE LET R == DM(ev.rot)
                 G2 == MSub(MMul(MTrans(R), R), MId(n))
                 dt == FAbs(FSub(MDet(R), O))
                 tolO == [i \in 1..n |-> [j \in 1..n |-> tolR]]
                 ro == MRatioMilli(G2, MZero(n, n), tolO)
                 rd == FRatioMilli(dt, tolR)
             IN << Item("rot", MRatioMilli(R, MBlock(Ma, 1, 1, n, n), MBlock(tolM, 1, 1, n, n))),
                   Item("orthonormal", IF ro > rd THEN ro ELSE rd) >>
      trItems == << Item("tr", IF Has(ev, "tr") /\ sized("tr", N) THEN MRatioMilli(DM(ev.tr), Ma, tolM) ELSE CtBad) >>
      isoItems == IF ~CtHasIso(g) THEN << >>
                  ELSE << Item("iso", IF Has(ev, "iso") /\ sized("iso", N) THEN MRatioMilli(DM(ev.iso), Ma, tolM) ELSE CtBad) >>
      va == CtVecAcc(g)
      vecItems == [i \in 1..Len(va) |->
                     Item(va[i][1], IF Has(ev, va[i][1]) THEN CtSame(DV(ev[va[i][1]]), SubSeq(a, va[i][2], va[i][2] + va[i][3] - 1)) ELSE CtBad)]
      cm == CtComp(g)
      compOK == \A i \in 1..Len(cm) : Has(ev, cm[i][1]) /\ D(ev[cm[i][1]]) = a[cm[i][2]]
      compItems == IF Len(cm) = 0 THEN << >> ELSE << Item("comps", IF compOK THEN 0 ELSE CtBad) >>
      angItems ==
        IF g.k \notin {"SO2", "SE2"} THEN << >>
        ELSE IF ~Has(ev, "angle") THEN << Item("angle", CtBad) >>
        ELSE LET th == D(ev.angle) IN
             << Item("angle", MRatioMilli(CtRot2(th), MBlock(Ma, 1, 1, 2, 2), MBlock(tolM, 1, 1, 2, 2))),
                Item("angle_range", IF FLe(FAbs(th), FMul(Pi, FAdd(O, FPow2(-20)))) THEN 0 ELSE CtBad) >>
      \* feedback: what was re-constructed from the accessors denotes the same transformation
      gap == CtGapOf(FAdd(O, IF n = 0 THEN Z ELSE SqNormDev(g, a)))
      eps == CtEps(ev.sc)
      accepted == ev.mode = "ndebug" \/ FLe(gap, FSub(eps, FMulInt(CtU(ev.sc), 8)))
      central == ev.mode = "ndebug" \/ FLe(FMulInt(gap, 3), FSub(eps, FMulInt(CtU(ev.sc), 16)))
      fbOne(f) == IF Has(ev, "fb_" \o f)
                  THEN MRatioMilli(M(g, DV(ev["fb_" \o f])), Ma, tolM)
                  ELSE IF (f \in CtFbDerived /\ central) \/ (f \notin CtFbDerived /\ accepted) THEN CtBad ELSE 0
      fbs == {f \in CtFb : Has(ev, "fb_" \o f) \/ Has(ev, "fbx_" \o f)}
      RECURSIVE FbMax(_)
      FbMax(S) == IF S = {} THEN 0 ELSE LET f == CHOOSE x \in S : TRUE  r1 == fbOne(f)  r2 == FbMax(S \ {f})
                                        IN IF r1 > r2 THEN r1 ELSE r2
      fbObs == IF \E f \in CtFbDerived : Has(ev, "fbx_" \o f) /\ accepted /\ ~central
               THEN << Item("obs_derived_feedback_rejected", 0) >> ELSE << >>
      fbItems == << Item("feedback", IF fbs = {} THEN CtBad ELSE FbMax(fbs)) >> \o fbObs
  IN rotItems \o trItems \o isoItems \o vecItems \o compItems \o angItems \o fbItems

-----------------------------------------------------------------------------
(* normalize(): any non-degenerate data becomes acceptable, the direction and the linear parts are kept.      *)
(* Dev is the deviation of the SQUARED norm.  c' = fl(c / fl(sqrt(fl(c.c)))): the sum of four squares carries *)
(* a relative error <= 4u, the square root <= 3u, each quotient one more u, so | |c'|^2 - 1 | <= 2 (3u + u)   *)
(* = 8u is the legitimate rounding bound (3.9u is observed on the unchanged tree); the acceptance band is     *)
(* 200u wide, a normalize() that does not normalise leaves Dev at the size of the input deviation.            *)
CtNormItems(ev) ==
  LET g == ev.g  c == DV(ev.c)  r == DV(ev.r)  Mc == M(g, c)
      lin(v) == [i \in 1..Len(v) |-> IF IsRotCoeff(g, i) THEN Z ELSE v[i]]
  IN << Item("normalize_ok", FRatioMilli(Dev(g, r), FMulInt(CtU(ev.sc), 8))),
        Item("normalize_accepted", CtSame(ev.rexc, "none")),
        Item("normalize_value", MRatioMilli(M(g, r), Mc, TolMat(AbsR(g, Mc), WPOf(ev), Z, FloorOf(ev)))),
        Item("normalize_lin", CtSame(lin(r), lin(c))) >>
     \o (IF Has(ev, "r2") THEN << Item("stored", CtSame(DV(ev.r2), r)) >> ELSE << >>)

(* cast<>(): same transformation to the precision of the narrower type (float here), valid in the new type *)
CtCastItems(ev) ==
  LET g == ev.g  a == DV(ev.a) IN
  << Item("cast_noexc", CtSame(ev.exc, "none")) >> \o
  (IF ev.exc # "none" THEN << >>
   ELSE LET r == DV(ev.r)  Ma == M(g, a)
            gapR == CtGapOf(FAdd(O, SqNormDev(g, r)))
            bandT == FSub(CtEps(ev.to), FMulInt(CtU(ev.to), 8))
        IN << Item("cast_value", IF Len(r) = Rep(g)
                                 THEN MRatioMilli(M(g, r), Ma, TolMat(AbsR(g, Ma), FPow2(-14), Dev(g, a), FPow2(-140)))
                                 ELSE CtBad) >>
           \o (IF RotDim(g) = 0 THEN << >> ELSE << Item("cast_valid", FRatioMilli(gapR, bandT)) >>))

-----------------------------------------------------------------------------
CtVecFields == {"a", "r", "r2", "c", "trans", "quat", "vel", "asso3c", "asso3m", "fb_parts", "fb_angle", "fb_tc", "fb_iso", "fb_xyzw", "fb_so3"}
CtMatFields == {"rot", "tr", "iso"}
CtScaFields == {"angle", "real", "imag", "x", "y", "z", "w", "vx", "vy", "vz", "time"}
CtArgVec == {"tr", "vel", "q", "axis", "c", "c0"}
CtArgSca == {"theta", "re", "im", "angle", "roll", "pitch", "yaw", "time"}
CtFinite(ev) ==
  /\ \A f \in CtVecFields \cap DOMAIN ev : FinV(ev[f])
  /\ \A f \in CtMatFields \cap DOMAIN ev : FinM(ev[f])
  /\ \A f \in CtScaFields \cap DOMAIN ev : FIsFinite(ev[f][1], ev[f][2])
  /\ (Has(ev, "args") =>
        /\ \A f \in CtArgVec \cap DOMAIN ev.args : FinV(ev.args[f])
        /\ \A f \in CtArgSca \cap DOMAIN ev.args : FIsFinite(ev.args[f][1], ev.args[f][2])
        /\ (Has(ev.args, "iso") => FinM(ev.args.iso)))

CtVerdict(ev) ==
  IF ~CtFinite(ev) THEN BadFinite
  ELSE CASE ev.e = "ctor" -> CtCtorItems(ev)
         [] ev.e = "acc"  -> CtAccItems(ev)
         [] ev.e = "norm" -> CtNormItems(ev)
         [] ev.e = "cast" -> CtCastItems(ev)
         [] OTHER -> << Item("unknown_event", CtBad) >>

\* classification for coverage: floor(log2) of the largest angle argument and of the largest linear quantity
CtThetaClass(ev) ==
  IF ev.e # "ctor" THEN -99999
  ELSE LET A == ev.args
           val(f) == IF Has(A, f) THEN FAbs(D(A[f])) ELSE Z
       IN FLog2(FMax(FMax(val("theta"), val("angle")), FMax(val("roll"), FMax(val("pitch"), val("yaw")))))
CtLinClass(ev) ==
  IF Has(ev, "a") THEN FLog2(LinCoeffMax(ev.g, DV(ev.a)))
  ELSE IF Has(ev, "r") THEN FLog2(LinCoeffMax(ev.g, DV(ev.r))) ELSE -100000

CtNext == /\ l <= Len(Tr) /\ l' = l + 1
          /\ PrintT(ToJson(<<"V", l, CtThetaClass(Tr[l]), CtLinClass(Tr[l]), 99999, CtVerdict(Tr[l])>>))
CtSpec == Init /\ [][CtNext]_l
=============================================================================
