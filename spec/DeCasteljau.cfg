SPECIFICATION Spec
CONSTANTS MaxN = 16
 MaxK = 4
 Formula = "fixed"
INVARIANT NeverOutOfBounds
INVARIANT GuardsRaise
INVARIANT Refines
INVARIANT SpecHolds
INVARIANT Bounded
INVARIANT Emit
PROPERTY Terminates
CHECK_DEADLOCK FALSE
