----------------------------- MODULE DeCasteljau -----------------------------
(***************************************************************************)
(* C17: De Casteljau curve fitting.                                        *)
(*                                                                         *)
(* SPEC side (what the property demands): the trajectory 0..N-1 is split   *)
(* into the maximal number of windows of d consecutive control points      *)
(* overlapping by one point; when closed, one more window starts at the    *)
(* last used point, takes the unused trailing points and wraps to the      *)
(* start until it has d control points.  Each window yields K = k (d = 2)  *)
(* or k*d curve points at parameters j/K, j = 1..K, whose weights over the *)
(* window's control points are the Bernstein polynomials of degree d-1.    *)
(*                                                                         *)
(* IMPL side: a step-by-step transcription of the window bookkeeping of    *)
(* manif::decasteljau (unsigned arithmetic, every index it dereferences),  *)
(* with the segment-count formula as a parameter:                          *)
(*    "fixed"  : floor((N-d)/(d-1)) + 1     (current tree, after the fix)  *)
(*    "pinned" : floor((N-d)/((d-1)+1))     (the pinned snapshot)          *)
(* TLC checks on the whole box that IMPL terminates, never indexes outside *)
(* 0..N-1 and produces exactly the SPEC windows ("fixed"), and shows the   *)
(* defect of "pinned" (cfg DeCasteljauPinned: invariant violated).         *)
(***************************************************************************)
EXTENDS DeCasteljauSpec, TLC, Json

CONSTANTS MaxN, MaxK, Formula

Configs == { c \in [N : 0..MaxN, d : 1..MaxN + 1, k : 0..MaxK, closed : BOOLEAN] : TRUE }
\* the box of the property plus the guard cases just outside it
Box == { c \in Configs : Valid(c) \/ (c.d >= 2 /\ (c.N \in 0..2 \/ c.d = c.N + 1 \/ c.k = 0) /\ c.N <= 6 /\ c.d <= 7) }

-----------------------------------------------------------------------------
(* IMPL: transcription of the bookkeeping of decasteljau() *)
VARIABLES cfg, pc, nseg, segs, t, oob, steps

vars == <<cfg, pc, nseg, segs, t, oob, steps>>

SegCount(c) == IF Formula = "fixed" THEN ((c.N - c.d) \div (c.d - 1)) + 1
               ELSE (c.N - c.d) \div ((c.d - 1) + 1)

Init == /\ cfg \in Box /\ pc = "check" /\ nseg = 0 /\ segs = << >> /\ t = 0 /\ oob = FALSE /\ steps = 0

Check == /\ pc = "check"
         /\ IF cfg.N > 2 /\ cfg.d <= cfg.N /\ cfg.k > 0
            THEN pc' = "segments" /\ nseg' = SegCount(cfg)
            ELSE pc' = "raise" /\ UNCHANGED nseg
         /\ UNCHANGED <<cfg, segs, t, oob>> /\ steps' = steps + 1

\* for (t < n_segments) push &trajectory[t*(degree-1)+n], n < degree
Segment == /\ pc = "segments"
           /\ IF t < nseg
              THEN LET w == [n \in 1..cfg.d |-> t * (cfg.d - 1) + (n - 1)] IN
                   /\ segs' = Append(segs, w)
                   /\ oob' = (oob \/ \E n \in 1..cfg.d : w[n] > cfg.N - 1)
                   /\ t' = t + 1 /\ pc' = pc
              ELSE /\ pc' = "close" /\ UNCHANGED <<segs, oob, t>>
           /\ UNCHANGED <<cfg, nseg>> /\ steps' = steps + 1

\* if (closed && n_segments*(degree-1) <= size-1) { left-over points, then degree-left_over-1 wrapped points }
\* unsigned arithmetic: degree-left_over-1 underflows when left_over > degree-1, the loop then runs past
\* the end of the trajectory (an out-of-bounds read)
Close == /\ pc = "close"
         /\ IF cfg.closed /\ nseg * (cfg.d - 1) <= cfg.N - 1
            THEN LET last == nseg * (cfg.d - 1)
                     left == cfg.N - 1 - last
                     extra == cfg.d - left - 1
                     tailpts == [i \in 1..(cfg.N - last) |-> last + (i - 1)]
                 IN IF extra < 0
                    THEN oob' = TRUE /\ segs' = Append(segs, tailpts)
                    ELSE /\ segs' = Append(segs, tailpts \o [i \in 1..extra |-> i - 1])
                         /\ oob' = (oob \/ extra > cfg.N)
            ELSE UNCHANGED <<segs, oob>>
         /\ pc' = "done" /\ UNCHANGED <<cfg, nseg, t>> /\ steps' = steps + 1

Next == Check \/ Segment \/ Close
Spec == Init /\ [][Next]_vars /\ WF_vars(Next)

-----------------------------------------------------------------------------
(* properties *)
NeverOutOfBounds == oob = FALSE
GuardsRaise == (pc = "raise") <=> (steps > 0 /\ ~(cfg.N > 2 /\ cfg.d <= cfg.N /\ cfg.k > 0))
Refines == (pc = "done") => /\ segs = SpecWindows(cfg)
                            /\ \A j \in 1..Len(segs) : Len(segs[j]) = cfg.d
SpecHolds == Valid(cfg) => SpecFacts(cfg)
Bounded == steps <= MaxN + 3
Terminates == <>(pc \in {"done", "raise"})

\* plan export: one line per configuration (read by the conformance harness)
Emit == (pc = "check") => PrintT(ToJson([N |-> cfg.N, d |-> cfg.d, k |-> cfg.k, closed |-> IF cfg.closed THEN 1 ELSE 0,
                                         valid |-> IF Valid(cfg) THEN 1 ELSE 0,
                                         windows |-> IF Valid(cfg) THEN SpecWindows(cfg) ELSE << >>,
                                         ppw |-> IF Valid(cfg) THEN PointsPerWindow(cfg) ELSE 0]))
=============================================================================
