SPECIFICATION Spec
CONSTANTS MaxN = 16
 MaxK = 4
 Formula = "pinned"
INVARIANT NeverOutOfBounds
INVARIANT GuardsRaise
INVARIANT Refines
INVARIANT SpecHolds
INVARIANT Bounded
PROPERTY Terminates
CHECK_DEADLOCK FALSE
