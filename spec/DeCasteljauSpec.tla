--------------------------- MODULE DeCasteljauSpec ---------------------------
(* The windows and point counts the property C17 demands (no state): shared by the
   exhaustive model DeCasteljau.tla and the trace specification DeCasteljauTrace.tla. *)
EXTENDS Integers, Sequences
Valid(c) == c.N >= 3 /\ c.d >= 2 /\ c.d <= c.N /\ c.k >= 1
-----------------------------------------------------------------------------
(* SPEC *)
NumWindows(c) == ((c.N - c.d) \div (c.d - 1)) + 1
Window(c, j) == [i \in 1..c.d |-> j * (c.d - 1) + (i - 1)]               \* 0-based indices, j = 0..
LastUsed(c) == NumWindows(c) * (c.d - 1)
LeftOver(c) == c.N - 1 - LastUsed(c)
WrapWindow(c) == [i \in 1..c.d |-> IF i <= LeftOver(c) + 1 THEN LastUsed(c) + (i - 1)
                                   ELSE i - (LeftOver(c) + 1) - 1]
SpecWindows(c) == [j \in 1..NumWindows(c) |-> Window(c, j - 1)]
                  \o (IF c.closed THEN << WrapWindow(c) >> ELSE << >>)
PointsPerWindow(c) == IF c.d = 2 THEN c.k ELSE c.k * c.d

\* facts the property states, checked for every configuration of the box
SpecFacts(c) ==
  /\ NumWindows(c) >= 1
  /\ LeftOver(c) >= 0 /\ LeftOver(c) < c.d - 1                      \* fewer than d-1 trailing points unused
  /\ \A j \in 1..Len(SpecWindows(c)) : \A i \in 1..c.d : SpecWindows(c)[j][i] \in 0..(c.N - 1)
  /\ \A j \in 1..(NumWindows(c) - 1) : SpecWindows(c)[j][c.d] = SpecWindows(c)[j + 1][1]   \* pieces join
  /\ (NumWindows(c) + 1) * (c.d - 1) + 1 > c.N                       \* maximal: one more window would not fit
  /\ c.closed => SpecWindows(c)[NumWindows(c) + 1][1] = LastUsed(c)

=============================================================================
