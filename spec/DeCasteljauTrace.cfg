SPECIFICATION DcSpec
POSTCONDITION TraceAccepted
CHECK_DEADLOCK FALSE
