-------------------------- MODULE DeCasteljauTrace --------------------------
(* C17 conformance: every recorded call of manif::decasteljau must be explained by DeCasteljauSpec.
   "dc"  events: one-hot trajectory in R^16 -- each returned point is its weight vector over the inputs;
   "dcg" events: random trajectory on a Lie group -- window ends and, for degree 2, the geodesic law. *)
EXTENDS ManifTrace, DeCasteljauSpec

Cfg(ev) == [N |-> ev.N, d |-> ev.d, k |-> ev.k, closed |-> ev.closed = 1]
Raised(ev) == ev.exc \in {"runtime_error", "invalid_argument"}
Binom(n, k) == LET RECURSIVE Bn(_,_)
                   Bn(a, b) == IF b = 0 \/ b = a THEN 1 ELSE Bn(a - 1, b - 1) + Bn(a - 1, b)
               IN Bn(n, k)
RECURSIVE FPowN(_,_)
FPowN(x, n) == IF n = 0 THEN O ELSE FMul(x, FPowN(x, n - 1))
\* Bernstein weight of control point i (0-based) of a window of d points at parameter j/K
Bern(d, i, j, K) == LET t == FDiv(FInt(j), FInt(K)) IN
  FMulInt(FMul(FPowN(t, i), FPowN(FSub(O, t), d - 1 - i)), Binom(d - 1, i))
\* expected weight of trajectory index x (0-based) for point j of window w
Weight(c, w, j, x) == LET K == PointsPerWindow(c) IN
  FSum([i \in 1..c.d |-> IF w[i] = x THEN Bern(c.d, i - 1, j, K) ELSE Z])

OneHotItems(ev) ==
  LET c == Cfg(ev) IN
  IF ~Valid(c) THEN << Item("raises", IF Raised(ev) THEN 0 ELSE 2000000000) >>
  ELSE IF ev.exc # "none" THEN << Item("terminates_in_bounds", 2000000000) >>
  ELSE LET W == SpecWindows(c)  K == PointsPerWindow(c) IN
       IF ev.n # Len(W) * K \/ Len(ev.curve) # ev.n THEN << Item("size", 2000000000) >>
       ELSE << Item("size", 0),
               Item("weights", MRatioMilli(DM(ev.curve),
                       [p \in 1..ev.n |-> [x \in 1..16 |->
                           Weight(c, W[((p - 1) \div K) + 1], ((p - 1) % K) + 1, x - 1)]],
                       [p \in 1..ev.n |-> [x \in 1..16 |-> FAdd(FMulInt(WPOf(ev), 4), FloorOf(ev))]])) >>

\* (these are statements about which control points a window uses, not about accuracy: a window of degree d applies
\*  d(d-1)/2 nested rplus/rminus, so the comparison uses the algorithm-grade tolerance 2^12 working precisions)
\* Lie group trajectory: the last point of each window is the window's last control point; for degree 2
\* point j of the window (A, B) is A exp(j/K tau) with tau the verified logarithm of A^-1 B
GroupItems(ev) ==
  LET c == Cfg(ev)  g == ev.g IN
  IF ~Valid(c) THEN << Item("raises", IF Raised(ev) THEN 0 ELSE 2000000000) >>
  ELSE IF ev.exc # "none" THEN << Item("terminates_in_bounds", 2000000000) >>
  ELSE LET W == SpecWindows(c)  K == PointsPerWindow(c) IN
       IF ev.n # Len(W) * K THEN << Item("size", 2000000000) >>
       ELSE << Item("size", 0) >> \o
            [w \in 1..Len(W) |->
               LET last == M(g, DV(ev.traj[W[w][c.d] + 1]))
                   got  == M(g, DV(ev.curve[w * K]))
               IN Item("window_end", MRatioMilli(got, last, TolMat(AbsR(g, last), FMulInt(WPOf(ev), 4096), Z, FloorOf(ev))))]
            \o (IF c.d # 2 THEN << >> ELSE
                [q \in 1..ev.n |->
                   LET w == ((q - 1) \div K) + 1   j == ((q - 1) % K) + 1
                       ia == W[w][1] + 1   ib == W[w][2] + 1
                       A == M(g, DV(ev.traj[ia]))   B == M(g, DV(ev.traj[ib]))
                       tau == DV(ev.wit[ia])
                       witOK == ib = (ia % c.N) + 1
                                /\ MRatioMilli(MMul(A, ExpOf(g, tau)), B, TolMat(MMul(AbsR(g, A), SExp(g, tau)), FMulInt(WPOf(ev), 4096), Z, FloorOf(ev))) <= 1000
                       P == MMul(A, ExpOf(g, VScale(tau, FDiv(FInt(j), FInt(K)))))
                   IN Item("geodesic", IF ~witOK THEN 2000000000
                                       ELSE MRatioMilli(M(g, DV(ev.curve[q])), P,
                                              TolMat(MMul(AbsR(g, A), SExp(g, tau)), FMulInt(WPOf(ev), 4096), Z, FloorOf(ev))))])

DcVerdict(ev) == IF ev.e = "dc" THEN OneHotItems(ev) ELSE IF ev.e = "dcg" THEN GroupItems(ev)
                 ELSE << Item("unknown_event", 2000000000) >>

DcNext == /\ l <= Len(Tr) /\ l' = l + 1
          /\ PrintT(ToJson(<<"V", l, -99999, -99999, 99999, DcVerdict(Tr[l])>>))
DcSpec == Init /\ [][DcNext]_l
=============================================================================
