-------------------------------- MODULE Fix --------------------------------
(***************************************************************************)
(* Exact fixed-point real arithmetic for TLC.                              *)
(*                                                                         *)
(* TLC integers are 32 bit.  The properties of manif talk about errors of  *)
(* 1e-16 relative on IEEE binary64 values, so the specification needs its  *)
(* own numbers.  A Fix value is a tuple  <<sign, l1, ..., ln>>  with       *)
(* sign \in {-1,0,1}, limbs l_i \in 0..LB-1 (little endian, no trailing     *)
(* zero limb, zero is <<0>>).  It denotes                                  *)
(*        sign * (SUM_i l_i * LB^(i-1)) * 2^(-F)         (LB = 2^15, F=195)  *)
(* so every IEEE double of magnitude >= 2^-195 is represented exactly and  *)
(* the integer part is unbounded.  Products and quotients truncate toward  *)
(* zero at 2^-195 (about 2e-59).  Because the representation is canonical, *)
(* TLA+ equality on Fix values is numeric equality.                        *)
(*                                                                         *)
(* Everything below is a plain (RECURSIVE) TLA+ definition and is what the *)
(* operators MEAN.  For speed each exported operator also has a Java       *)
(* override (java/src/verifov/FixOv.java, BigInteger) computing the same   *)
(* function; spec/FixSelfTest.tla evaluates both and compares.             *)
(***************************************************************************)
EXTENDS Integers, Sequences

LB  == 32768          \* limb base 2^15 (limb products fit in 31 bits)
FLimbs == 13             \* fractional limbs
F  == 195            \* fractional bits = 15 * FLimbs

-----------------------------------------------------------------------------
(* Naturals as little-endian limb sequences, canonical (no trailing zeros) *)

RECURSIVE NStrip(_)
NStrip(s) == IF Len(s) = 0 THEN s
             ELSE IF s[Len(s)] = 0 THEN NStrip(SubSeq(s, 1, Len(s) - 1)) ELSE s

NFromInt(x) ==   \* 0 <= x < 2^31
  NStrip(<< x % LB, (x \div LB) % LB, x \div (LB * LB) >>)

RECURSIVE NAddC(_,_,_,_)
NAddC(a, b, i, c) ==
  IF i > Len(a) /\ i > Len(b) THEN (IF c = 0 THEN <<>> ELSE <<c>>)
  ELSE LET x == IF i <= Len(a) THEN a[i] ELSE 0
           y == IF i <= Len(b) THEN b[i] ELSE 0
           v == x + y + c
       IN <<v % LB>> \o NAddC(a, b, i + 1, v \div LB)
NAdd(a, b) == NAddC(a, b, 1, 0)

RECURSIVE NSubC(_,_,_,_)      \* requires a >= b
NSubC(a, b, i, c) ==
  IF i > Len(a) THEN <<>>
  ELSE LET y == IF i <= Len(b) THEN b[i] ELSE 0
           v == a[i] - y - c
       IN IF v < 0 THEN <<v + LB>> \o NSubC(a, b, i + 1, 1)
                   ELSE <<v>> \o NSubC(a, b, i + 1, 0)
NSub(a, b) == NStrip(NSubC(a, b, 1, 0))

RECURSIVE NCmpAt(_,_,_)
NCmpAt(a, b, i) == IF i = 0 THEN 0
                   ELSE IF a[i] < b[i] THEN -1
                   ELSE IF a[i] > b[i] THEN 1 ELSE NCmpAt(a, b, i - 1)
NCmp(a, b) == IF Len(a) < Len(b) THEN -1
              ELSE IF Len(a) > Len(b) THEN 1 ELSE NCmpAt(a, b, Len(a))

RECURSIVE NMulRow(_,_,_,_)
NMulRow(a, d, i, c) ==
  IF i > Len(a) THEN (IF c = 0 THEN <<>> ELSE <<c>>)
  ELSE LET v == a[i] * d + c IN <<v % LB>> \o NMulRow(a, d, i + 1, v \div LB)

NZeros(n) == [k \in 1..n |-> 0]
RECURSIVE NMulAcc(_,_,_,_)
NMulAcc(a, b, j, acc) ==
  IF j > Len(b) THEN acc
  ELSE NMulAcc(a, b, j + 1, NAdd(acc, NZeros(j - 1) \o NMulRow(a, b[j], 1, 0)))
NMul(a, b) == IF Len(a) = 0 \/ Len(b) = 0 THEN <<>> ELSE NStrip(NMulAcc(a, b, 1, <<>>))

\* division by a small number 0 < d < LB, most significant limb first
RECURSIVE NDivSmallAt(_,_,_,_)
NDivSmallAt(a, d, i, r) ==
  IF i = 0 THEN <<>>
  ELSE LET v == r * LB + a[i] IN NDivSmallAt(a, d, i - 1, v % d) \o <<v \div d>>
NDivSmall(a, d) == NStrip(NDivSmallAt(a, d, Len(a), 0))

Pow2Small(r) == CASE r = 0 -> 1 [] r = 1 -> 2 [] r = 2 -> 4 [] r = 3 -> 8 [] r = 4 -> 16
                  [] r = 5 -> 32 [] r = 6 -> 64 [] r = 7 -> 128 [] r = 8 -> 256 [] r = 9 -> 512
                  [] r = 10 -> 1024 [] r = 11 -> 2048 [] r = 12 -> 4096 [] r = 13 -> 8192
                  [] r = 14 -> 16384
NShl(a, k) ==   \* a * 2^k, k >= 0
  IF Len(a) = 0 THEN a
  ELSE NZeros(k \div 15) \o NMulRow(a, Pow2Small(k % 15), 1, 0)
NShr(a, k) ==   \* floor(a / 2^k), k >= 0
  IF k \div 15 >= Len(a) THEN <<>>
  ELSE NDivSmall(SubSeq(a, (k \div 15) + 1, Len(a)), Pow2Small(k % 15))

\* floor(a / b) and remainder by recursive doubling of the divisor
RECURSIVE NDivMod(_,_)
NDivMod(a, b) ==
  IF NCmp(a, b) < 0 THEN << <<>>, a >>
  ELSE LET h  == NDivMod(a, NAdd(b, b))
           q2 == NAdd(h[1], h[1])
       IN IF NCmp(h[2], b) >= 0 THEN << NAdd(q2, <<1>>), NSub(h[2], b) >>
                                ELSE << q2, h[2] >>
NDiv(a, b) == NDivMod(a, b)[1]

\* floor(sqrt(a)) by recursion on a/4
RECURSIVE NSqrt(_)
NSqrt(a) ==
  IF Len(a) = 0 THEN a
  ELSE IF Len(a) = 1 /\ a[1] < 4 THEN <<1>>
  ELSE LET s  == LET h == NSqrt(NShr(a, 2)) IN NAdd(h, h)
           s1 == NAdd(s, <<1>>)
       IN IF NCmp(NMul(s1, s1), a) <= 0 THEN s1 ELSE s

-----------------------------------------------------------------------------
(* Signed fixed-point numbers *)

Mk(sign, mag) == IF Len(mag) = 0 THEN <<0>> ELSE <<sign>> \o mag
Sgn(a) == a[1]
Mag(a) == Tail(a)

FZero == <<0>>
FInt(n) ==      \* the integer n, |n| < 2^31
  IF n = 0 THEN <<0>>
  ELSE IF n > 0 THEN Mk(1, NZeros(FLimbs) \o NFromInt(n))
  ELSE IF n < -2147483647 THEN Mk(-1, NZeros(FLimbs) \o <<0, 0, 2>>)
  ELSE Mk(-1, NZeros(FLimbs) \o NFromInt(-n))
FOne == FInt(1)

FNeg(a) == IF Sgn(a) = 0 THEN a ELSE <<-Sgn(a)>> \o Mag(a)
FAbs(a) == IF Sgn(a) = 0 THEN a ELSE <<1>> \o Mag(a)

FAdd(a, b) ==
  IF Sgn(a) = 0 THEN b
  ELSE IF Sgn(b) = 0 THEN a
  ELSE IF Sgn(a) = Sgn(b) THEN Mk(Sgn(a), NAdd(Mag(a), Mag(b)))
  ELSE LET c == NCmp(Mag(a), Mag(b))
       IN IF c = 0 THEN <<0>>
          ELSE IF c > 0 THEN Mk(Sgn(a), NSub(Mag(a), Mag(b)))
          ELSE Mk(Sgn(b), NSub(Mag(b), Mag(a)))
FSub(a, b) == FAdd(a, FNeg(b))

FCmp(a, b) ==   \* -1, 0, 1
  IF Sgn(a) # Sgn(b) THEN (IF Sgn(a) < Sgn(b) THEN -1 ELSE 1)
  ELSE IF Sgn(a) = 0 THEN 0
  ELSE Sgn(a) * NCmp(Mag(a), Mag(b))
FLe(a, b) == FCmp(a, b) <= 0
FLt(a, b) == FCmp(a, b) < 0
FMax(a, b) == IF FLe(a, b) THEN b ELSE a
FMin(a, b) == IF FLe(a, b) THEN a ELSE b

\* product, truncated toward zero at 2^-F
FMul(a, b) ==
  IF Sgn(a) = 0 \/ Sgn(b) = 0 THEN <<0>>
  ELSE LET p == NMul(Mag(a), Mag(b))
       IN Mk(Sgn(a) * Sgn(b), IF Len(p) <= FLimbs THEN <<>> ELSE SubSeq(p, FLimbs + 1, Len(p)))

\* quotient, truncated toward zero at 2^-F  (b # 0)
FDiv(a, b) ==
  IF Sgn(a) = 0 THEN <<0>>
  ELSE Mk(Sgn(a) * Sgn(b), NDiv(NZeros(FLimbs) \o Mag(a), Mag(b)))

\* division by a small positive integer 0 < k < LB
FDivInt(a, k) == IF Sgn(a) = 0 THEN a ELSE Mk(Sgn(a), NDivSmall(Mag(a), k))
\* multiplication by an integer |k| < LB
FMulInt(a, k) ==
  IF Sgn(a) = 0 \/ k = 0 THEN <<0>>
  ELSE Mk(IF k > 0 THEN Sgn(a) ELSE -Sgn(a), NMulRow(Mag(a), IF k > 0 THEN k ELSE -k, 1, 0))

\* 2^e for any integer e (0 when e < -F)
FPow2(e) == IF e < -F THEN <<0>> ELSE Mk(1, NShl(<<1>>, F + e))

\* floor of the square root of a >= 0, truncated at 2^-F
FSqrt(a) == IF Sgn(a) <= 0 THEN <<0>> ELSE Mk(1, NSqrt(NZeros(FLimbs) \o Mag(a)))

\* exact value of the IEEE-754 binary64 number whose bit pattern is given as
\* two signed 32-bit halves (hi = sign, exponent, top 20 mantissa bits).
\* Non-finite patterns (exponent 2047) have no value: FIsFinite is FALSE.
HiU(hi) == IF hi < 0 THEN (hi + 2147483647) + 1 ELSE hi   \* hi without its sign bit
FIsFinite(hi, lo) == (HiU(hi) \div 1048576) # 2047
FDbl(hi, lo) ==
  LET h    == HiU(hi)
      e    == h \div 1048576
      mh   == h % 1048576
      l31  == IF lo < 0 THEN (lo + 2147483647) + 1 ELSE lo
      top  == IF lo < 0 THEN 1 ELSE 0
      mant == NAdd(NShl(NFromInt(IF e = 0 THEN mh ELSE mh + 1048576), 32),
                   NAdd(NShl(NFromInt(top), 31), NFromInt(l31)))
      ex   == (IF e = 0 THEN -1074 ELSE e - 1075) + F
      mag  == IF ex >= 0 THEN NShl(mant, ex) ELSE NShr(mant, -ex)
  IN Mk(IF hi < 0 THEN -1 ELSE 1, mag)

\* reporting only: floor(1000 * a / b) saturated to 2000000000 (a, b >= 0)
FRatioMilli(a, b) ==
  IF Sgn(b) = 0 THEN (IF Sgn(a) = 0 THEN 0 ELSE 2000000000)
  ELSE LET q == NDiv(NMulRow(Mag(a), 1000, 1, 0), Mag(b))
       IN IF Len(q) > 2 \/ (Len(q) = 2 /\ q[2] >= 30000) THEN 2000000000
          ELSE IF Len(q) = 0 THEN 0
          ELSE IF Len(q) = 1 THEN q[1] ELSE q[1] + LB * q[2]

\* floor(log2 |a|) (reporting / classification); -100000 for zero
FLog2(a) ==
  IF Sgn(a) = 0 THEN -100000
  ELSE LET m == Mag(a)
           top == m[Len(m)]
           RECURSIVE Bits(_)
           Bits(x) == IF x <= 1 THEN 0 ELSE 1 + Bits(x \div 2)
       IN 15 * (Len(m) - 1) + Bits(top) - F

\* pi by Machin's formula  pi = 16 atan(1/5) - 4 atan(1/239),  atan(1/n) = SUM (-1)^k / ((2k+1) n^(2k+1))
RECURSIVE FAtanInvAcc(_,_,_,_)
FAtanInvAcc(n, p, k, acc) ==      \* p = 1/n^(2k+1)
  IF Sgn(p) = 0 THEN acc
  ELSE LET term == FDivInt(p, 2 * k + 1)
       IN FAtanInvAcc(n, FDivInt(FDivInt(p, n), n), k + 1,
                      IF k % 2 = 0 THEN FAdd(acc, term) ELSE FSub(acc, term))
FAtanInv(n) == FAtanInvAcc(n, FDivInt(FInt(1), n), 0, <<0>>)
FPi == FSub(FMulInt(FAtanInv(5), 16), FMulInt(FAtanInv(239), 4))

-----------------------------------------------------------------------------
(* Sums, vectors, matrices (sequences of rows) over Fix *)

RECURSIVE FSumFrom(_,_,_)
FSumFrom(s, i, acc) == IF i > Len(s) THEN acc ELSE FSumFrom(s, i + 1, FAdd(acc, s[i]))
FSum(s) == FSumFrom(s, 1, <<0>>)

RECURSIVE FMaxAbsFrom(_,_,_)
FMaxAbsFrom(s, i, acc) == IF i > Len(s) THEN acc ELSE FMaxAbsFrom(s, i + 1, FMax(acc, FAbs(s[i])))
VMaxAbs(s) == FMaxAbsFrom(s, 1, <<0>>)

VAdd(a, b)   == [i \in 1..Len(a) |-> FAdd(a[i], b[i])]
VSub(a, b)   == [i \in 1..Len(a) |-> FSub(a[i], b[i])]
VNeg(a)      == [i \in 1..Len(a) |-> FNeg(a[i])]
VScale(a, s) == [i \in 1..Len(a) |-> FMul(a[i], s)]
VDot(a, b)   == FSum([i \in 1..Len(a) |-> FMul(a[i], b[i])])
VZero(n)     == [i \in 1..n |-> <<0>>]

MRows(A) == Len(A)
MCols(A) == Len(A[1])
MId(n)     == [i \in 1..n |-> [j \in 1..n |-> IF i = j THEN FOne ELSE <<0>>]]
MZero(n,m) == [i \in 1..n |-> [j \in 1..m |-> <<0>>]]
MMul(A, C) == [i \in 1..Len(A) |-> [j \in 1..Len(C[1]) |->
                 FSum([k \in 1..Len(C) |-> FMul(A[i][k], C[k][j])])]]
MAdd(A, C) == [i \in 1..Len(A) |-> [j \in 1..Len(A[1]) |-> FAdd(A[i][j], C[i][j])]]
MSub(A, C) == [i \in 1..Len(A) |-> [j \in 1..Len(A[1]) |-> FSub(A[i][j], C[i][j])]]
MNeg(A)    == [i \in 1..Len(A) |-> [j \in 1..Len(A[1]) |-> FNeg(A[i][j])]]
MScale(A, s)  == [i \in 1..Len(A) |-> [j \in 1..Len(A[1]) |-> FMul(A[i][j], s)]]
MDivInt(A, k) == [i \in 1..Len(A) |-> [j \in 1..Len(A[1]) |-> FDivInt(A[i][j], k)]]
MTrans(A)  == [j \in 1..Len(A[1]) |-> [i \in 1..Len(A) |-> A[i][j]]]
MVec(A, v) == [i \in 1..Len(A) |-> FSum([k \in 1..Len(v) |-> FMul(A[i][k], v[k])])]
MCol(A, j) == [i \in 1..Len(A) |-> A[i][j]]
MFromCols(cols) == [i \in 1..Len(cols[1]) |-> [j \in 1..Len(cols) |-> cols[j][i]]]
MBlock(A, r, c, nr, nc) == [i \in 1..nr |-> [j \in 1..nc |-> A[r + i - 1][c + j - 1]]]
MMaxAbs(A) == VMaxAbs([k \in 1..(Len(A) * Len(A[1])) |->
                 A[((k - 1) \div Len(A[1])) + 1][((k - 1) % Len(A[1])) + 1]])
MFrob(A, C) == FSum([k \in 1..(Len(A) * Len(A[1])) |->
                 FMul(A[((k - 1) \div Len(A[1])) + 1][((k - 1) % Len(A[1])) + 1],
                      C[((k - 1) \div Len(A[1])) + 1][((k - 1) % Len(A[1])) + 1])])

MAbs(A) == [i \in 1..Len(A) |-> [j \in 1..Len(A[1]) |-> FAbs(A[i][j])]]
\* reporting: the largest ratio |A_ij - C_ij| / T_ij in thousandths (saturating), i.e. <= 1000
\* iff A agrees with C within the entry-wise tolerance matrix T
RECURSIVE MRatioFrom(_,_,_,_,_)
MRatioFrom(A, C, T, k, acc) ==
  IF k > Len(A) * Len(A[1]) THEN acc
  ELSE LET i == ((k - 1) \div Len(A[1])) + 1
           j == ((k - 1) % Len(A[1])) + 1
           r == FRatioMilli(FAbs(FSub(A[i][j], C[i][j])), T[i][j])
       IN MRatioFrom(A, C, T, k + 1, IF r > acc THEN r ELSE acc)
MRatioMilli(A, C, T) == MRatioFrom(A, C, T, 1, 0)

\* identity functions; their overrides force TLC's lazily evaluated function values into
\* tuples once (a performance device only)
MStrict(A) == A
VStrict(v) == v

\* determinant and inverse by Laplace expansion (definition; the override
\* uses Gauss-Jordan elimination with pivoting in the same fixed point)
MMinor(A, r, c) == [i \in 1..(Len(A) - 1) |-> [j \in 1..(Len(A) - 1) |->
                      A[IF i < r THEN i ELSE i + 1][IF j < c THEN j ELSE j + 1]]]
RECURSIVE MDet(_)
MDet(A) == IF Len(A) = 1 THEN A[1][1]
           ELSE FSum([j \in 1..Len(A) |->
                  LET t == FMul(A[1][j], MDet(MMinor(A, 1, j)))
                  IN IF j % 2 = 1 THEN t ELSE FNeg(t)])
MInv(A) == LET d == MDet(A)
               n == Len(A)
           IN IF n = 1 THEN << << FDiv(FOne, d) >> >>
              ELSE [i \in 1..n |-> [j \in 1..n |->
                     LET c == MDet(MMinor(A, j, i))
                     IN FDiv(IF (i + j) % 2 = 0 THEN c ELSE FNeg(c), d)]]
=============================================================================
