INIT Init
NEXT Next
