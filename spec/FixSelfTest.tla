---------------------------- MODULE FixSelfTest ----------------------------
(* Evaluates a fixed battery of Fix operations and prints the results.  tools/vcheck runs it
   twice -- with the pure TLA+ definitions of Fix.tla and with the Java overrides -- and
   requires identical output (MInv: equal up to 2^-150).  This is what makes the overrides
   accelerators rather than a second, unchecked oracle. *)
EXTENDS Fix, TLC

\* a small deterministic generator of 31-bit values
Lcg1(x) == (x * 75 + 74) % 65537
RECURSIVE Lcg1N(_,_)
Lcg1N(x, n) == IF n = 0 THEN x ELSE Lcg1N(Lcg1(x), n - 1)
LcgN(x, n) == (Lcg1N(x % 65537, n + 2) % 32768) * 32768 + (Lcg1N((x + 4711) % 65537, n + 5) % 32768)

\* doubles spread over many exponents: hi chosen with exponents 1023-60 .. 1023+40, both signs
HiOf(k)  == LET r == LcgN(17 + k, 3)
                e == 963 + (r % 100)
                s == IF (r \div 128) % 2 = 0 THEN 0 ELSE 1
                m == (r \div 1024) % 1048576
                v == e * 1048576 + m
            IN IF s = 0 THEN v ELSE (v - 2147483647) - 1
LoOf(k)  == LET r == LcgN(9001 + k, 4) IN IF r % 2 = 0 THEN r ELSE -r
X(k) == FDbl(HiOf(k), LoOf(k))

N == 24
Scalars == [k \in 1..N |-> X(k)]
Special == << FDbl(0, 0), FDbl((-2147483647) - 1, 0), FDbl(0, 1), FDbl(1048576, 0), FDbl(1072693248, 0),
              FDbl(-1074790400, 0), FDbl(1074340347, 1413754136), FDbl(2146435071, -1),
              FDbl(1017118720, 0), FDbl(3, -5) >>

Bin(k) == LET a == X(k) b == X(k + 1) IN
  << FAdd(a, b), FSub(a, b), FMul(a, b), FDiv(a, b), FCmp(a, b), FMax(a, b), FMin(a, b),
     FSqrt(FAbs(a)), FDivInt(a, 7 + k), FMulInt(a, 3 - k), FLog2(a), FNeg(a), FAbs(b),
     FRatioMilli(FAbs(a), FAbs(b)), FLe(a, b), FLt(b, a) >>

M3(k) == [i \in 1..3 |-> [j \in 1..3 |-> X(k + 3 * i + j)]]
V3(k) == [i \in 1..3 |-> X(k + i)]
MatT(k) == LET A == M3(k) C == M3(k + 5) IN
  << MMul(A, C), MAdd(A, C), MSub(A, C), MScale(A, X(k)), MDivInt(A, 3), MVec(A, V3(k)),
     MMaxAbs(A), MFrob(A, C), MNeg(A), VDot(V3(k), V3(k + 2)), VAdd(V3(k), V3(k + 1)),
     VSub(V3(k), V3(k + 1)), VScale(V3(k), X(k + 4)), VMaxAbs(V3(k)), FSum(V3(k)), VNeg(V3(k)) >>

\* inverse: well-conditioned 2x2 matrix 2I + small perturbation; compared through the residual only
\* (2x2 because TLC re-evaluates lazily built function values on every access in pure mode)
Well(k) == [i \in 1..2 |-> [j \in 1..2 |->
              FAdd(IF i = j THEN FInt(2) ELSE FZero, FDivInt(FInt(((LcgN(k + 7 * i + j, 2)) % 100) - 50), 100))]]
Strict2(A) == << <<A[1][1], A[1][2]>>, <<A[2][1], A[2][2]>> >>   \* tuples are evaluated eagerly
InvResidualSmall(k) ==
  LET A == Strict2(Well(k))
      I == Strict2(MInv(A))
      R == Strict2(MSub(Strict2(MMul(A, I)), MId(2)))
  IN FLe(MMaxAbs(R), FPow2(-150))

ASSUME PrintT(<<"SPECIAL", Special, FInt(0), FInt(5), FInt(-7), FInt((-2147483647) - 1), FPow2(-195),
                FPow2(-196), FPow2(40), FSqrt(FInt(2)), FDiv(FOne, FInt(3))>>)
ASSUME \A k \in 1..(N - 1) : PrintT(<<"BIN", k, Bin(k)>>)
ASSUME \A k \in 1..4 : PrintT(<<"MAT", k, MatT(k)>>)
ASSUME \A k \in 1..3 : PrintT(<<"INV", k, InvResidualSmall(k)>>)
VARIABLE x
Init == x = 0
Next == UNCHANGED x
=============================================================================
