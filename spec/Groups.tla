------------------------------- MODULE Groups -------------------------------
(***************************************************************************)
(* The Lie groups provided by manif, as MATRIX groups.                     *)
(*                                                                         *)
(* Written from the documentation (README table, the paper "A micro Lie    *)
(* theory", the doxygen comments on hat()/transform()), never from the     *)
(* closed forms in the implementation.  A group descriptor g is a record   *)
(*     [k |-> "SO2"|"SE2"|"SO3"|"SE3"|"SE_2_3"|"SGal3"]                    *)
(*     [k |-> "Rn", n |-> n]                                               *)
(*     [k |-> "Bundle", parts |-> <<g1, ..., gm>>]                         *)
(* (exactly what the JSON objects of a recorded trace deserialise to).     *)
(*                                                                         *)
(* Everything is expressed on the homogeneous matrix of size MatN(g):      *)
(*   SO2  [R 0; 0 1]            coefficients (re, im)        tangent (th)  *)
(*   SE2  [R t; 0 1]            (x, y, re, im)               (x, y, th)    *)
(*   SO3  [R 0; 0 1]            (qx, qy, qz, qw)             (w)           *)
(*   SE3  [R t; 0 1]            (t, q)                       (rho, w)      *)
(*   SE_2_3 [R t v; 0 1 0; 0 0 1]  (t, q, v)                 (rho, w, a)   *)
(*   SGal3  [R v t; 0 1 s; 0 0 1]  (t, q, v, s)              (rho,nu,w,iota)*)
(*   Rn   [I v; 0 1]            v                            v             *)
(*   Bundle: block diagonal, concatenated coefficients / tangents.         *)
(***************************************************************************)
EXTENDS Fix

Atoms == {"SO2", "SE2", "SO3", "SE3", "SE_2_3", "SGal3"}

RECURSIVE SumOver(_,_,_)
SumOver(Op(_), parts, i) == IF i > Len(parts) THEN 0 ELSE Op(parts[i]) + SumOver(Op, parts, i + 1)

RECURSIVE Dim(_)
Dim(g) == CASE g.k = "SO2" -> 2 [] g.k = "SE2" -> 2 [] g.k = "SO3" -> 3 [] g.k = "SE3" -> 3
            [] g.k = "SE_2_3" -> 3 [] g.k = "SGal3" -> 3 [] g.k = "Rn" -> g.n
            [] g.k = "Bundle" -> SumOver(Dim, g.parts, 1)
RECURSIVE DoF(_)
DoF(g) == CASE g.k = "SO2" -> 1 [] g.k = "SE2" -> 3 [] g.k = "SO3" -> 3 [] g.k = "SE3" -> 6
            [] g.k = "SE_2_3" -> 9 [] g.k = "SGal3" -> 10 [] g.k = "Rn" -> g.n
            [] g.k = "Bundle" -> SumOver(DoF, g.parts, 1)
RECURSIVE Rep(_)
Rep(g) == CASE g.k = "SO2" -> 2 [] g.k = "SE2" -> 4 [] g.k = "SO3" -> 4 [] g.k = "SE3" -> 7
            [] g.k = "SE_2_3" -> 10 [] g.k = "SGal3" -> 11 [] g.k = "Rn" -> g.n
            [] g.k = "Bundle" -> SumOver(Rep, g.parts, 1)
\* size of the homogeneous (transformation) matrix
RECURSIVE MatN(_)
MatN(g) == CASE g.k = "SO2" -> 3 [] g.k = "SE2" -> 3 [] g.k = "SO3" -> 4 [] g.k = "SE3" -> 4
             [] g.k = "SE_2_3" -> 5 [] g.k = "SGal3" -> 5 [] g.k = "Rn" -> g.n + 1
             [] g.k = "Bundle" -> SumOver(MatN, g.parts, 1)
\* size of the matrix the library uses for Lie algebra elements (hat): the pure rotation
\* groups use the bare rotation generator without the homogeneous row/column
RECURSIVE AlgN(_)
AlgN(g) == CASE g.k = "SO2" -> 2 [] g.k = "SO3" -> 3 [] g.k = "Bundle" -> SumOver(AlgN, g.parts, 1)
             [] OTHER -> MatN(g)

\* offset tables of a bundle: prefix sums (0-based offset of part i)
RECURSIVE Off(_,_,_)
Off(Op(_), parts, i) == IF i <= 1 THEN 0 ELSE Off(Op, parts, i - 1) + Op(parts[i - 1])

\* which part of a bundle holds (1-based) index j of a table with sizes Op
RECURSIVE PartOf(_,_,_,_)
PartOf(Op(_), parts, j, i) == IF j <= Off(Op, parts, i) + Op(parts[i]) THEN i ELSE PartOf(Op, parts, j, i + 1)

-----------------------------------------------------------------------------
(* Generators, as sparse integer entries <<row, col, value>> of the homogeneous matrix *)

SkewEntries(a) == CASE a = 1 -> { <<2, 3, -1>>, <<3, 2, 1>> }
                    [] a = 2 -> { <<1, 3, 1>>, <<3, 1, -1>> }
                    [] a = 3 -> { <<1, 2, -1>>, <<2, 1, 1>> }

RECURSIVE GenEntries(_,_)
GenEntries(g, i) ==
  CASE g.k = "SO2"    -> { <<1, 2, -1>>, <<2, 1, 1>> }
    [] g.k = "SE2"    -> IF i <= 2 THEN { <<i, 3, 1>> } ELSE { <<1, 2, -1>>, <<2, 1, 1>> }
    [] g.k = "SO3"    -> SkewEntries(i)
    [] g.k = "SE3"    -> IF i <= 3 THEN { <<i, 4, 1>> } ELSE SkewEntries(i - 3)
    [] g.k = "SE_2_3" -> IF i <= 3 THEN { <<i, 4, 1>> }
                         ELSE IF i <= 6 THEN SkewEntries(i - 3) ELSE { <<i - 6, 5, 1>> }
    [] g.k = "SGal3"  -> IF i <= 3 THEN { <<i, 5, 1>> }
                         ELSE IF i <= 6 THEN { <<i - 3, 4, 1>> }
                         ELSE IF i <= 9 THEN SkewEntries(i - 6) ELSE { <<4, 5, 1>> }
    [] g.k = "Rn"     -> { <<i, g.n + 1, 1>> }
    [] g.k = "Bundle" -> LET p == PartOf(DoF, g.parts, i, 1)
                             o == Off(MatN, g.parts, p)
                         IN { <<e[1] + o, e[2] + o, e[3]>> :
                                e \in GenEntries(g.parts[p], i - Off(DoF, g.parts, p)) }

\* integer generator matrix (plain TLC integers)
GenI(g, i) == LET E == GenEntries(g, i) IN
  [r \in 1..MatN(g) |-> [c \in 1..MatN(g) |->
     IF \E e \in E : e[1] = r /\ e[2] = c THEN (CHOOSE e \in E : e[1] = r /\ e[2] = c)[3] ELSE 0]]

\* squared Frobenius norm of generator i (1 for translations, 2 for rotations)
GenNorm2(g, i) == LET E == GenEntries(g, i) IN IF \E e \in E : e[3] = -1 THEN 2 ELSE 1

\* which tangent coordinates are angles (all others are "linear": lengths, velocities, time)
RECURSIVE IsAngular(_,_)
IsAngular(g, i) ==
  CASE g.k = "SO2" -> TRUE [] g.k = "SE2" -> i = 3 [] g.k = "SO3" -> TRUE
    [] g.k = "SE3" -> i >= 4 [] g.k = "SE_2_3" -> i \in 4..6 [] g.k = "SGal3" -> i \in 7..9
    [] g.k = "Rn" -> FALSE
    [] g.k = "Bundle" -> LET p == PartOf(DoF, g.parts, i, 1)
                         IN IsAngular(g.parts[p], i - Off(DoF, g.parts, p))

-----------------------------------------------------------------------------
(* The abstraction function: coefficient vector (Fix) -> homogeneous matrix *)

Z == FZero
O == FOne

\* rotation of the NORMALISED unit complex number (re, im)
Rot2(re, im) ==
  LET n == FSqrt(FAdd(FMul(re, re), FMul(im, im)))
      c == FDiv(re, n)  s == FDiv(im, n)
  IN << <<c, FNeg(s)>>, <<s, c>> >>

\* rotation of the NORMALISED quaternion (x, y, z, w): R = I + (2/|q|^2) (w [v]x + [v]x^2)
Rot3(x, y, z, w) ==
  LET n2 == FAdd(FAdd(FMul(x, x), FMul(y, y)), FAdd(FMul(z, z), FMul(w, w)))
      s  == FDiv(FInt(2), n2)
      xx == FMul(s, FMul(x, x))  yy == FMul(s, FMul(y, y))  zz == FMul(s, FMul(z, z))
      xy == FMul(s, FMul(x, y))  xz == FMul(s, FMul(x, z))  yz == FMul(s, FMul(y, z))
      wx == FMul(s, FMul(w, x))  wy == FMul(s, FMul(w, y))  wz == FMul(s, FMul(w, z))
  IN << <<FSub(O, FAdd(yy, zz)), FSub(xy, wz), FAdd(xz, wy)>>,
        <<FAdd(xy, wz), FSub(O, FAdd(xx, zz)), FSub(yz, wx)>>,
        <<FSub(xz, wy), FAdd(yz, wx), FSub(O, FAdd(xx, yy))>> >>

\* squared norm of the rotation coefficients minus one (the validity deviation delta);
\* 0 for groups without a rotation part
RotCoeffs(g, c) ==
  CASE g.k = "SO2" -> <<c[1], c[2]>> [] g.k = "SE2" -> <<c[3], c[4]>>
    [] g.k = "SO3" -> <<c[1], c[2], c[3], c[4]>>
    [] g.k \in {"SE3", "SE_2_3", "SGal3"} -> <<c[4], c[5], c[6], c[7]>>
    [] OTHER -> <<>>
SqNormDev(g, c) == IF Len(RotCoeffs(g, c)) = 0 THEN Z
                   ELSE FSub(VDot(RotCoeffs(g, c), RotCoeffs(g, c)), O)

\* place square matrix blocks[i] on the diagonal of an N x N matrix
BlockEntry(blocks, sizes, r, c) ==
  LET RECURSIVE Find(_,_,_)
      Find(i, off, x) == IF x <= off + sizes[i] THEN <<i, off>> ELSE Find(i + 1, off + sizes[i], x)
      pr == Find(1, 0, r)
      pc == Find(1, 0, c)
  IN IF pr[1] = pc[1] THEN blocks[pr[1]][r - pr[2]][c - pc[2]] ELSE Z
BlockDiag(blocks, sizes, N, dummy) ==
  [r \in 1..N |-> [c \in 1..N |-> BlockEntry(blocks, sizes, r, c)]]

RECURSIVE M(_,_)
M(g, c) ==
  CASE g.k = "SO2" ->
         LET R == Rot2(c[1], c[2]) IN
         << <<R[1][1], R[1][2], Z>>, <<R[2][1], R[2][2], Z>>, <<Z, Z, O>> >>
    [] g.k = "SE2" ->
         LET R == Rot2(c[3], c[4]) IN
         << <<R[1][1], R[1][2], c[1]>>, <<R[2][1], R[2][2], c[2]>>, <<Z, Z, O>> >>
    [] g.k = "SO3" ->
         LET R == Rot3(c[1], c[2], c[3], c[4]) IN
         << R[1] \o <<Z>>, R[2] \o <<Z>>, R[3] \o <<Z>>, <<Z, Z, Z, O>> >>
    [] g.k = "SE3" ->
         LET R == Rot3(c[4], c[5], c[6], c[7]) IN
         << R[1] \o <<c[1]>>, R[2] \o <<c[2]>>, R[3] \o <<c[3]>>, <<Z, Z, Z, O>> >>
    [] g.k = "SE_2_3" ->
         LET R == Rot3(c[4], c[5], c[6], c[7]) IN
         << R[1] \o <<c[1], c[8]>>, R[2] \o <<c[2], c[9]>>, R[3] \o <<c[3], c[10]>>,
            <<Z, Z, Z, O, Z>>, <<Z, Z, Z, Z, O>> >>
    [] g.k = "SGal3" ->
         LET R == Rot3(c[4], c[5], c[6], c[7]) IN
         << R[1] \o <<c[8], c[1]>>, R[2] \o <<c[9], c[2]>>, R[3] \o <<c[10], c[3]>>,
            <<Z, Z, Z, O, c[11]>>, <<Z, Z, Z, Z, O>> >>
    [] g.k = "Rn" ->
         [r \in 1..(g.n + 1) |-> [k \in 1..(g.n + 1) |->
            IF r = k THEN O ELSE IF k = g.n + 1 THEN c[r] ELSE Z]]
    [] g.k = "Bundle" ->
         MStrict(BlockDiag([i \in 1..Len(g.parts) |->
                     MStrict(M(g.parts[i], SubSeq(c, Off(Rep, g.parts, i) + 1,
                                                  Off(Rep, g.parts, i) + Rep(g.parts[i]))))],
                   [i \in 1..Len(g.parts) |-> MatN(g.parts[i])], MatN(g), 0))

\* homogeneous embedding of a point of the space the group acts on
RECURSIVE Embed(_,_)
Embed(g, p) ==
  CASE g.k \in {"SO2", "SE2"} -> <<p[1], p[2], O>>
    [] g.k \in {"SO3", "SE3"} -> <<p[1], p[2], p[3], O>>
    [] g.k = "SE_2_3" -> <<p[1], p[2], p[3], O, Z>>
    [] g.k = "SGal3"  -> <<p[1], p[2], p[3], Z, O>>
    [] g.k = "Rn" -> [i \in 1..(g.n + 1) |-> IF i <= g.n THEN p[i] ELSE O]
    [] g.k = "Bundle" ->
         LET RECURSIVE Cat(_)
             Cat(i) == IF i > Len(g.parts) THEN <<>>
                       ELSE Embed(g.parts[i], SubSeq(p, Off(Dim, g.parts, i) + 1,
                                   Off(Dim, g.parts, i) + Dim(g.parts[i]))) \o Cat(i + 1)
         IN Cat(1)
\* inverse: the Dim point coordinates inside a homogeneous vector
RECURSIVE Project(_,_)
Project(g, h) ==
  CASE g.k = "Bundle" ->
         LET RECURSIVE Cat(_)
             Cat(i) == IF i > Len(g.parts) THEN <<>>
                       ELSE Project(g.parts[i], SubSeq(h, Off(MatN, g.parts, i) + 1,
                                   Off(MatN, g.parts, i) + MatN(g.parts[i]))) \o Cat(i + 1)
         IN Cat(1)
    [] OTHER -> SubSeq(h, 1, Dim(g))

\* the coefficient vector of the identity element
RECURSIVE IdentityCoeffs(_)
IdentityCoeffs(g) ==
  CASE g.k = "SO2" -> <<O, Z>> [] g.k = "SE2" -> <<Z, Z, O, Z>> [] g.k = "SO3" -> <<Z, Z, Z, O>>
    [] g.k = "SE3" -> <<Z, Z, Z, Z, Z, Z, O>>
    [] g.k = "SE_2_3" -> <<Z, Z, Z, Z, Z, Z, O, Z, Z, Z>>
    [] g.k = "SGal3" -> <<Z, Z, Z, Z, Z, Z, O, Z, Z, Z, Z>>
    [] g.k = "Rn" -> [i \in 1..g.n |-> Z]
    [] g.k = "Bundle" ->
         LET RECURSIVE Cat(_)
             Cat(i) == IF i > Len(g.parts) THEN <<>> ELSE IdentityCoeffs(g.parts[i]) \o Cat(i + 1)
         IN Cat(1)
=============================================================================
