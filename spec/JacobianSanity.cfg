INIT Init
NEXT Next
