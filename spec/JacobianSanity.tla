--------------------------- MODULE JacobianSanity ---------------------------
(***************************************************************************)
(* The right-Jacobian formulas that ManifTrace.tla uses as the oracle for   *)
(* C05 / C06 / C12, checked INSIDE the specification against the literal    *)
(* definition  f(X (+) h e_i) = f(X) (+) h J e_i + o(h)  evaluated in exact *)
(* arithmetic on the matrix model with h = 2^-60 (so the difference         *)
(* quotient is accurate to about 2^-60, far below the 2^-40 tolerance       *)
(* used here and 1e-6 used on the implementation):                          *)
(*    column i of J  =  vee( (F(X)^-1 F(X exp(h E_i)) - I) / h )            *)
(* for group-valued F, plain difference quotients for vector-valued F, and  *)
(* t + h e_i for tangent arguments.  Run in setup and in the C05 check, so  *)
(* a wrong derivation in the specification cannot go unnoticed.             *)
(***************************************************************************)
EXTENDS LieMath, TLC

H60 == FPow2(-60)
Tol == FPow2(-40)
Unit(n, i) == [k \in 1..n |-> IF k = i THEN O ELSE Z]
Near(A, C) == FLe(MMaxAbs(MSub(A, C)), Tol)

\* a generic valid element: exp of a rational tangent (exact to 2^-150), and rational tangents
Tan(g, s) == [i \in 1..DoF(g) |-> FDivInt(FInt(((i * s) % 7) - 3), 4)]
Elem(g, s) == ExpSeries(Hat(g, Tan(g, s)), 70)
Pert(g, X, i) == MMul(X, ExpSeries(Hat(g, VScale(Unit(DoF(g), i), H60)), 12))     \* X (+) h e_i
\* difference quotient of a group-valued map F at X (F given through its values F0 = F(X), F1(i) = F(X (+) h e_i))
ColG(g, F0, F1) == VScale(VeeV(g, MSub(MMul(MInv(F0), F1), MId(MatN(g)))), FPow2(60))
JacG(g, F0, F1(_)) == MStrict(MFromCols([i \in 1..DoF(g) |-> ColG(g, F0, F1(i))]))

Checks(g) ==
  LET X == Elem(g, 3)  Y == Elem(g, 5)  t == Tan(g, 2)  n == DoF(g)
      Xi == MInv(X)
      E == ExpSeries(Hat(g, t), 70)
      Eh(i) == ExpSeries(Hat(g, VAdd(t, VScale(Unit(n, i), H60))), 70)
      p == [k \in 1..Dim(g) |-> FDivInt(FInt(2 * k - 3), 2)]
      ph == Embed(g, p)
      act0 == Project(g, MVec(X, ph))
  IN << \* inverse: -Ad_X
        Near(JacG(g, Xi, LAMBDA i : MInv(Pert(g, X, i))), MNeg(AdjMat(g, X))),
        \* compose wrt X: Ad_Y^-1 ; wrt Y: I
        Near(JacG(g, MMul(X, Y), LAMBDA i : MMul(Pert(g, X, i), Y)), AdjMat(g, MInv(Y))),
        Near(JacG(g, MMul(X, Y), LAMBDA i : MMul(X, Pert(g, Y, i))), MId(n)),
        \* between X^-1 Y wrt X: -Ad_(X^-1 Y)^-1 ; wrt Y: I
        Near(JacG(g, MMul(Xi, Y), LAMBDA i : MMul(MInv(Pert(g, X, i)), Y)), MNeg(AdjMat(g, MInv(MMul(Xi, Y))))),
        Near(JacG(g, MMul(Xi, Y), LAMBDA i : MMul(Xi, Pert(g, Y, i))), MId(n)),
        \* exp wrt t: Jr(t)   (hence log: Jr(tau)^-1; rminus: Jr^-1, -Jl^-1 by the chain rule through exp)
        Near(JacG(g, E, Eh), JrOf(g, t)),
        \* Jl(t) = Ad_exp(t) Jr(t)  and  Jl(t) = Jr(-t)
        Near(JlOf(g, t), MMul(AdjMat(g, E), JrOf(g, t))),
        Near(JlOf(g, t), JrOf(g, VNeg(t))),
        \* rplus X exp(t) wrt X: Ad_exp(t)^-1 ; wrt t: Jr(t)
        Near(JacG(g, MMul(X, E), LAMBDA i : MMul(Pert(g, X, i), E)), AdjMat(g, MInv(E))),
        Near(JacG(g, MMul(X, E), LAMBDA i : MMul(X, Eh(i))), JrOf(g, t)),
        \* lplus exp(t) X wrt X: I ; wrt t: Ad_X^-1 Jr(t)
        Near(JacG(g, MMul(E, X), LAMBDA i : MMul(E, Pert(g, X, i))), MId(n)),
        Near(JacG(g, MMul(E, X), LAMBDA i : MMul(Eh(i), X)), MMul(AdjMat(g, Xi), JrOf(g, t))),
        \* lminus log(X Y^-1) wrt X:  X exp(d) Y^-1 = (X Y^-1) exp(Ad_Y d)  -- checked as a matrix identity
        Near(MMul(MMul(Pert(g, X, 1), MInv(Y)), MId(MatN(g))),
             MMul(MMul(X, MInv(Y)), ExpSeries(Hat(g, VScale(MCol(AdjMat(g, Y), 1), H60)), 12))),
        \* act wrt X: columns (X E_i p~)[1..Dim] ; wrt p: the rotation block
        Near(MFromCols([i \in 1..n |-> VScale(VSub(Project(g, MVec(Pert(g, X, i), ph)), act0), FPow2(60))]),
             MFromCols([i \in 1..n |-> Project(g, MVec(MMul(X, Gen(g, i)), ph))])),
        \* ad_t s = vee([hat t, hat s]) and Ad_exp(t) = exp(ad_t)
        Near(ExpSeries(AdMat(g, t), 70), AdjMat(g, E)) >>

Groups == << [k |-> "SO2"], [k |-> "SE2"], [k |-> "SO3"], [k |-> "SE3"], [k |-> "SE_2_3"], [k |-> "SGal3"], [k |-> "Rn", n |-> 2],
             [k |-> "Bundle", parts |-> <<[k |-> "SE2"], [k |-> "SO3"]>>] >>
ASSUME \A i \in 1..Len(Groups) : PrintT(<<"JSANITY", Groups[i].k, Checks(Groups[i])>>)
VARIABLE x
Init == x = 0
Next == UNCHANGED x
=============================================================================
