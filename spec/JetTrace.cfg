SPECIFICATION JSpec
POSTCONDITION TraceAccepted
CHECK_DEADLOCK FALSE
