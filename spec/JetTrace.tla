------------------------------ MODULE JetTrace ------------------------------
(***************************************************************************)
(* C12 conformance: manif instantiated over a forward-mode dual number     *)
(* (ceres::Jet work-alike), over float, and manif's ceres functors.        *)
(*                                                                         *)
(* Trace written by harness/rec_jet.cpp.  Four kinds of events:            *)
(*  - STANDARD events (compose inverse between rplus lplus rminus lminus   *)
(*    log exp act, tagged "via":"jet") in rec_core's format whose value    *)
(*    fields are the PRIMAL parts of f(X (+) d) computed over Jets and     *)
(*    whose Jacobian fields are the DUAL parts of f(X (+) d) (-) f(X):     *)
(*    they are judged by ManifTrace!Verdict unchanged, i.e. "Jet primal =  *)
(*    model value" and "AD Jacobian = model Jacobian" (the C05 definition).*)
(*  - "jetcmp": the same call next to its run over double: primal parts    *)
(*    within 2^10 u, AD Jacobian against the analytic Jacobian of the    *)
(*    same operation at finite-difference grade (unit aware).              *)
(*  - "functor": Ceres{Manifold,LocalParameterization,Objective,Constraint}*)
(*    Functor driven through raw pointers into guarded buffers, T = double *)
(*    and T = Jet, against the member functions over double and against    *)
(*    the documented residual formulas.                                    *)
(*  - "fltcmp": the operation over float next to the double run on the     *)
(*    same float-representable inputs.                                     *)
(***************************************************************************)
EXTENDS ManifTrace

SAT == 2000000000
\* Agreement of two runs of the SAME closed forms in the same precision (Jet primal vs double, functor vs
\* member function): WORKING PRECISION 2^10 u per unit of scale (DESIGN.md 2.5), not bit-identity and not
\* the 4u first planned, by analysis of the unchanged tree:
\*  (i)   Eigen evaluates quaternion products / norms of double with vectorised kernels that associate
\*        differently from the generic kernels used for a Jet scalar, and ceres::Jet divides as f*(1/g):
\*        a few u at the source (measured <= 10 u*scale on well-conditioned inputs);
\*  (ii)  at the small-angle switch-over theta^2 = eps = 100 eps_mach the two runs may take different
\*        branches because theta^2 itself differs by an ulp; the branches differ by the library's own
\*        approximation error eps/8 ~ 28u (measured: 25u in SO3 lplus at the "at_sw" cell);
\*  (iii) the few-u differences of (i) are amplified by the conditioning of the closed forms: ~u/theta^2 in
\*        the SGal3 blocks (measured 74u at theta = 0.1), ~u/(pi-theta) in V^-1 next to pi (measured 270u at
\*        pi-theta = 4e-3; beyond 1e-3 this exceeds 2^10 u and is the finding KF-C12-NEARPI-PRIMAL).
\* Two valid evaluations of one formula cannot be asked to agree better than the formula is conditioned;
\* how well it is conditioned is decided by C02..C04.  What C12 must catch here -- a value path through a
\* narrower type, a Constants<Jet> with another threshold, a dropped term -- shows up at >= 1e-11.
UAgree(ev) == WPOf(ev)

FieldMax(ev, f) == IF Has(ev, f) THEN VMaxAbs(DV(ev[f])) ELSE Z
\* magnitude scale of an event: 1 or the largest coefficient among operands and results
\* (SGal3: position entries are sums of products velocity x time, so the bound is the square)
ScaleOf(ev, fields) ==
  LET RECURSIVE Acc(_)
      Acc(k) == IF k > Len(fields) THEN O ELSE FMax(FieldMax(ev, fields[k]), Acc(k + 1))
      mx == Acc(1)
  IN IF ev.g.k = "SGal3" THEN FMul(mx, mx) ELSE mx
ConstTol(n, tol) == [i \in 1..n |-> tol]

\* linear (length / velocity / time) scale of an event for the unit-aware Jacobian tolerance
LinOfElem(ev, f) == IF Has(ev, f) THEN LinCoeffMax(ev.g, DV(ev[f])) ELSE Z
LinOfTan(ev, f)  == IF Has(ev, f) THEN LinMax(ev.g, DV(ev[f])) ELSE Z
LinOfEv(ev) == FMax(O, FMax(FMax(LinOfElem(ev, "a"), LinOfElem(ev, "b")),
                        FMax(FMax(LinOfTan(ev, "t"), LinOfTan(ev, "rt")), FMax(LinOfTan(ev, "m"), FieldMax(ev, "pt")))))

JNames == << "Ja", "Jb", "Jt", "Jp" >>
NamesIn(r) == SelectSeq(JNames, LAMBDA n : n \in DOMAIN r)
FinRec(r) == \A n \in DOMAIN r : FinM(r[n])

-----------------------------------------------------------------------------
(* jetcmp: {op, res, a|b|t|pt, prim, dbl, ad: {Ja..}, an: {Ja..}}           *)
JetCmpItems(ev) ==
  IF ~(FinV(ev.prim) /\ FinV(ev.dbl) /\ FinRec(ev.ad) /\ FinRec(ev.an)) THEN BadFinite
  ELSE
  LET g == ev.g
      prim == DV(ev.prim)   dbl == DV(ev.dbl)
      sc == ScaleOf(ev, << "a", "b", "t", "pt", "prim", "dbl" >>)
      tolv == ConstTol(Len(dbl), FAdd(FMul(UAgree(ev), sc), FloorOf(ev)))
      lres == IF ev.res = "r" THEN LinCoeffMax(g, dbl) ELSE IF ev.res = "rt" THEN LinMax(g, dbl) ELSE VMaxAbs(dbl)
      LL == FMax(LinOfEv(ev), lres)
      UT == UnitT(g, LL)
      UP == [i \in 1..Dim(g) |-> LL]
      rowU == IF ev.op = "act" THEN UP ELSE UT
      colU(n) == IF ev.op = "act" /\ n = "Jp" THEN UP ELSE UT
      ns == NamesIn(ev.ad)
  IN << Item("primal", IF Len(prim) = Len(dbl) THEN VRatio(prim, dbl, tolv) ELSE SAT) >>
     \o [k \in 1..Len(ns) |->
           JItem(ev, "ad_vs_analytic_" \o ns[k], DM(ev.ad[ns[k]]), DM(ev.an[ns[k]]), rowU, colU(ns[k]))]

-----------------------------------------------------------------------------
(* functor: {name, sc (d|j), ok, operands, out, ref, gb, ga, inb, ina       *)
(*           [, dual, dual_ref] [, w, rt] [, m, cov, U, rt]}                *)
\*  out    output buffer (primal parts) against the member-function reference over double
\*  guards / inputs_const   guard cells and (const) input buffers bit-identical before and after
\*  dual   dual parts of the output against the Jacobian chain of the member functions over double
\*  formula  the documented residual recomputed here from the logged ingredients
FunctorItems(ev) ==
  IF ~(FinV(ev.out) /\ FinV(ev.ref)) THEN BadFinite
  ELSE
  LET g == ev.g   n == DoF(g)
      out == DV(ev.out)   ref == DV(ev.ref)
      sc == ScaleOf(ev, << "a", "b", "t", "m", "rt", "out", "ref" >>)
      tolv == ConstTol(Len(ref), FAdd(FMul(UAgree(ev), sc), FloorOf(ev)))
      wpv == ConstTol(Len(ref), FAdd(FMul(WPOf(ev), sc), FloorOf(ev)))
      LL == LinOfEv(ev)
      UT == UnitT(g, LL)
      UL == [i \in 1..n |-> LL]
      rowU == IF ev.name = "ManifoldMinus" THEN UT ELSE IF ev.name = "Objective" THEN << LL >> ELSE UL
      base == << Item("ok", IF ev.ok = 1 THEN 0 ELSE SAT),
                 Item("out", IF Len(out) = Len(ref) THEN VRatio(out, ref, tolv) ELSE SAT),
                 Item("guards", IF ev.gb = ev.ga THEN 0 ELSE SAT),
                 Item("inputs_const", IF ev.inb = ev.ina THEN 0 ELSE SAT) >>
      \* the gradient of w|tau| is the DIRECTION of tau: ill-conditioned (u*scale/|tau|) for a tiny residual,
      \* where the re-normalising cast<T>() of the target inside the functor already turns it; judged from
      \* |tau| >= 2^-20 * scale on
      tinyRes == ev.name = "Objective" /\ FLt(VMaxAbs(DV(ev.rt)), FMul(FPow2(-20), sc))
      dual == IF ~Has(ev, "dual") \/ tinyRes THEN << >>
              ELSE IF ~(FinM(ev.dual) /\ FinM(ev.dual_ref)) THEN << Item("dual", SAT) >>
              ELSE LET colU == IF Len(ev.dual[1]) = n THEN UT ELSE UT \o UT
                   IN << JItem(ev, "dual", DM(ev.dual), DM(ev.dual_ref), rowU, colU) >>
      \* w |tau| is not differentiable at tau = 0: a non-finite derivative is accepted only where the
      \* residual computed by the functor itself is exactly zero
      resZero == ev.name = "Objective" /\ out[1] = Z
      dfin == IF ~Has(ev, "dual_finite") THEN << >>
              ELSE << Item("dual_finite", IF ev.dual_finite = 1 \/ resZero THEN 0 ELSE SAT) >>
      formula ==
        IF ev.name = "Objective"
        THEN LET tau == DV(ev.rt)   w == D(ev.w[1])
             IN << Item("formula", VRatio(out, << FMul(FSqrt(VDot(tau, tau)), w) >>, wpv)) >>
        ELSE IF ev.name = "Constraint"
        THEN LET tau == DV(ev.rt)   m == DV(ev.m)   Um == DM(ev.U)   cov == DM(ev.cov)
                 wpn == ConstTol(n, FAdd(FMul(FMulInt(WPOf(ev), n), FMul(sc, FMax(O, MMaxAbs(Um)))), FloorOf(ev)))
             IN << Item("formula", VRatio(out, MVec(Um, VSub(m, tau)), wpn)),
                   Item("sqrt_info", MRatioMilli(MMul(MMul(MTrans(Um), Um), cov), MId(n),
                                                 [i \in 1..n |-> [j \in 1..n |-> FPow2(-30)]])) >>
        ELSE << >>
  IN base \o dual \o dfin \o formula

-----------------------------------------------------------------------------
(* fltcmp: {op, operands (float-representable, as used by the double run), flt, dbl}; sc = "f" *)
FltCmpItems(ev) ==
  IF ~(FinV(ev.flt) /\ FinV(ev.dbl)) THEN BadFinite
  ELSE
  LET flt == DV(ev.flt)   dbl == DV(ev.dbl)
      sc == ScaleOf(ev, << "a", "b", "t", "pt", "flt", "dbl" >>)
      \* 2^10 * 2^-24 * scale
      tolv == ConstTol(Len(dbl), FAdd(FMul(WPOf(ev), sc), FloorOf(ev)))
  IN << Item("flt", IF Len(flt) = Len(dbl) THEN VRatio(flt, dbl, tolv) ELSE SAT) >>

JVerdict(ev) ==
  CASE ev.e = "jetcmp"  -> JetCmpItems(ev)
    [] ev.e = "functor" -> FunctorItems(ev)
    [] ev.e = "fltcmp"  -> FltCmpItems(ev)
    [] OTHER            -> Verdict(ev)

\* floor(log2 |pi - theta|) for rotation magnitudes in (2, pi + 2^-30]: as ManifTrace!GapClass, but a logarithm
\* that comes out as pi or an ulp above it (element built at pi exactly) still belongs to the region next to pi
JGapClass(ev) ==
  LET t == ClassTangent(ev) IN
  IF Len(t) = 0 THEN 99999
  ELSE LET th == Theta(ev.g, t)   gp == FAbs(FSub(Pi, th)) IN
       IF FLt(FInt(2), th) /\ FLe(th, FAdd(Pi, FPow2(-30)))
       THEN (IF FLt(gp, FPow2(-60)) THEN -60 ELSE FLog2(gp)) ELSE 99999

JNext == /\ l <= Len(Tr)
         /\ l' = l + 1
         /\ PrintT(ToJson(<<"V", l, ThetaClass(Tr[l]), LinClass(Tr[l]), JGapClass(Tr[l]), JVerdict(Tr[l])>>))
JSpec == Init /\ [][JNext]_l
=============================================================================
