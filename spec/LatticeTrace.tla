----------------------------- MODULE LatticeTrace -----------------------------
(* Bit-exact conformance on the exact lattices: for every reachable element X of ManifLattice.tla and every
   generator g the real library's X*g, g*X, X^-1, X.act(p), X.transform() and X.adj() must equal the INTEGER
   coefficient formulas of ManifLattice.tla exactly (all quantities are exactly representable; SE2::inverse,
   which goes through atan2/cos/sin, is compared at working precision). *)
EXTENDS ManifTrace
CONSTANTS Kind, Bound
VARIABLE lx
Lat == INSTANCE ManifLattice WITH X <- lx

Half(n) == FDivInt(FInt(n), 2)
IV(v) == [i \in 1..Len(v) |-> FInt(v[i])]
\* coefficient vector of a lattice element in the library's layout
Coeffs(E) ==
  CASE Kind = "SE2" -> IV(E.t) \o IV(E.q)
    [] Kind = "SO3" -> [i \in 1..4 |-> Half(E.q[i])]
    [] Kind = "SE3" -> IV(E.t) \o [i \in 1..4 |-> Half(E.q[i])]
    [] Kind = "SE_2_3" -> IV(E.t) \o [i \in 1..4 |-> Half(E.q[i])] \o IV(E.v)
    [] Kind = "SGal3" -> IV(E.t) \o [i \in 1..4 |-> Half(E.q[i])] \o IV(E.v) \o <<FInt(E.s)>>
Exact(a, b) == IF VStrict(a) = VStrict(b) THEN 0 ELSE 2000000000
ExactM(A, C) == IF MStrict(A) = MStrict(C) THEN 0 ELSE 2000000000
IntM(A) == [i \in 1..Len(A) |-> [j \in 1..Len(A[1]) |-> FInt(A[i][j])]]
GD == [k |-> Kind]

LatItems(ev) ==
  LET E == ev.X  Gn == ev.G
      inv == Lat!Inverse(E)
      invItem == IF Kind = "SE2"
                 THEN VRatio(DV(ev.inv), Coeffs(inv), [i \in 1..4 |-> FAdd(FMulInt(WPOf(ev), Bound + 1), FloorOf(ev))])
                 ELSE Exact(DV(ev.inv), Coeffs(inv))
  IN << Item("xg", Exact(DV(ev.xg), Coeffs(Lat!Compose(E, Gn)))),
        Item("gx", Exact(DV(ev.gx), Coeffs(Lat!Compose(Gn, E)))),
        Item("inv", invItem),
        Item("transform", ExactM(DM(ev.T), IntM(Lat!M(E)))),
        Item("adj", ExactM(DM(ev.adj), AdjMat(GD, IntM(Lat!M(E))))) >>
     \o [i \in 1..Len(ev.pts) |-> Item("act", Exact(DV(ev.act[i]), IV(Lat!Act(E, ev.pts[i]))))]

LNext == /\ l <= Len(Tr) /\ l' = l + 1 /\ UNCHANGED lx
         /\ PrintT(ToJson(<<"V", l, -99999, -99999, 99999,
               IF Tr[l].e = "lat" THEN LatItems(Tr[l]) ELSE << Item("unknown_event", 2000000000) >> >>))
LSpec == l = 1 /\ lx = Lat!Ident /\ [][LNext]_<<l, lx>>
=============================================================================
