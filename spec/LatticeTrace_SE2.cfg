SPECIFICATION LSpec
CONSTANTS Kind = "SE2"
 Bound = 2
POSTCONDITION TraceAccepted
CHECK_DEADLOCK FALSE
