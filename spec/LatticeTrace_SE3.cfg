SPECIFICATION LSpec
CONSTANTS Kind = "SE3"
 Bound = 2
POSTCONDITION TraceAccepted
CHECK_DEADLOCK FALSE
