SPECIFICATION LSpec
CONSTANTS Kind = "SE_2_3"
 Bound = 1
POSTCONDITION TraceAccepted
CHECK_DEADLOCK FALSE
