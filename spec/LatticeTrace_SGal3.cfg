SPECIFICATION LSpec
CONSTANTS Kind = "SGal3"
 Bound = 1
POSTCONDITION TraceAccepted
CHECK_DEADLOCK FALSE
