SPECIFICATION LSpec
CONSTANTS Kind = "SO3"
 Bound = 2
POSTCONDITION TraceAccepted
CHECK_DEADLOCK FALSE
