------------------------------- MODULE LieMath -------------------------------
(***************************************************************************)
(* Group-independent Lie theory on top of Groups.tla: hat / vee, bracket,  *)
(* ad and Ad from their definitions, the matrix exponential and the        *)
(* Jacobian series, and the right-Jacobians of the API operations.         *)
(* Nothing here knows a closed form; only series and matrix identities.    *)
(***************************************************************************)
EXTENDS Groups

IntMat(A) == [r \in 1..Len(A) |-> [c \in 1..Len(A[1]) |-> FInt(A[r][c])]]
Gen(g, i) == IntMat(GenI(g, i))

\* hat(t) = SUM_i t_i Gen_i, built entry-wise from the sparse generator entries
Hat(g, t) ==
  LET N == MatN(g)
      Contrib(r, c) == [i \in 1..DoF(g) |->
         LET E == GenEntries(g, i) IN
         IF \E e \in E : e[1] = r /\ e[2] = c
         THEN FMulInt(t[i], (CHOOSE e \in E : e[1] = r /\ e[2] = c)[3]) ELSE Z]
  IN MStrict([r \in 1..N |-> [c \in 1..N |-> FSum(Contrib(r, c))]])

\* vee: the coordinates of an algebra element in the generator basis.  The generators
\* are Frobenius-orthogonal, so the coordinate is <A, Gen_i> / <Gen_i, Gen_i>.
VeeCoord(g, A, i) ==
  LET E == GenEntries(g, i)
      RECURSIVE Acc(_)
      Acc(S) == IF S = {} THEN Z ELSE LET e == CHOOSE x \in S : TRUE
                                      IN FAdd(FMulInt(A[e[1]][e[2]], e[3]), Acc(S \ {e}))
  IN FDivInt(Acc(E), GenNorm2(g, i))
VeeV(g, A) == VStrict([i \in 1..DoF(g) |-> VeeCoord(g, A, i)])
\* A lies in the algebra iff hat(vee(A)) = A
InAlgebra(g, A, tol) == FLe(MMaxAbs(MSub(Hat(g, VeeV(g, A)), A)), tol)

\* the matrix the library uses for algebra elements: the pure rotation groups drop the homogeneous
\* row/column (AlgN < MatN); for a bundle the blocks of the parts at the AlgN offsets
RECURSIVE AlgView(_,_)
AlgView(g, A) ==
  IF g.k = "Bundle"
  THEN MStrict(BlockDiag([i \in 1..Len(g.parts) |->
                  AlgView(g.parts[i], MBlock(A, Off(MatN, g.parts, i) + 1, Off(MatN, g.parts, i) + 1,
                                             MatN(g.parts[i]), MatN(g.parts[i])))],
               [i \in 1..Len(g.parts) |-> AlgN(g.parts[i])], AlgN(g), 0))
  ELSE MBlock(A, 1, 1, AlgN(g), AlgN(g))

Comm(A, C) == MSub(MMul(A, C), MMul(C, A))
BracketV(g, a, b) == VeeV(g, Comm(Hat(g, a), Hat(g, b)))

\* ad_t : column i is vee([hat t, Gen_i])
AdMat(g, t) == LET H == Hat(g, t) IN
  MStrict(MFromCols([i \in 1..DoF(g) |-> VeeV(g, Comm(H, Gen(g, i)))]))
\* Ad_X : column i is vee(X Gen_i X^-1), X given as its homogeneous matrix
AdjMat(g, X) == LET Xi == MInv(X) IN
  MStrict(MFromCols([i \in 1..DoF(g) |-> VeeV(g, MMul(MMul(X, Gen(g, i)), Xi))]))

\* Frobenius inner product of the hats = a^T W b with W_rc = tr(Gen_r Gen_c^T)
InnerW(g) == [r \in 1..DoF(g) |-> [c \in 1..DoF(g) |->
   LET Gr == GenI(g, r) Gc == GenI(g, c) N == MatN(g)
       RECURSIVE S(_,_)
       S(i, j) == IF i > N THEN 0 ELSE IF j > N THEN S(i + 1, 1) ELSE Gr[i][j] * Gc[i][j] + S(i, j + 1)
   IN S(1, 1)]]

-----------------------------------------------------------------------------
(* Series.  K terms; Converged says the last term was negligible. *)

RECURSIVE ExpAcc(_,_,_,_,_)
ExpAcc(A, term, acc, k, K) ==
  IF k > K THEN <<acc, term>>
  ELSE LET t2 == MDivInt(MMul(term, A), k) IN ExpAcc(A, t2, MAdd(acc, t2), k + 1, K)
\* exp(A) = SUM_{k>=0} A^k / k!
ExpSeriesK(A, K) == ExpAcc(A, MId(Len(A)), MId(Len(A)), 1, K)
ExpSeries(A, K) == ExpSeriesK(A, K)[1]

RECURSIVE JAcc(_,_,_,_,_)
JAcc(A, term, acc, k, K) ==      \* term_k = A^k/(k+1)!
  IF k > K THEN <<acc, term>>
  ELSE LET t2 == MDivInt(MMul(term, A), k + 1) IN JAcc(A, t2, MAdd(acc, t2), k + 1, K)
\* left Jacobian  Jl(t) = SUM ad^k/(k+1)!,  right Jacobian Jr(t) = SUM (-ad)^k/(k+1)!
JlSeriesK(ad, K) == JAcc(ad, MId(Len(ad)), MId(Len(ad)), 1, K)
JlSeries(ad, K) == JlSeriesK(ad, K)[1]
JrSeries(ad, K) == JlSeriesK(MNeg(ad), K)[1]

\* squared rotation magnitude of a tangent: sum of squares of the angular coordinates
\* (for a bundle: the largest part's -- conservative for series lengths)
RECURSIVE Theta2(_,_)
Theta2(g, t) ==
  IF g.k = "Bundle"
  THEN LET RECURSIVE Mx(_)
           Mx(i) == IF i > Len(g.parts) THEN Z
                    ELSE FMax(Theta2(g.parts[i], SubSeq(t, Off(DoF, g.parts, i) + 1, Off(DoF, g.parts, i) + DoF(g.parts[i]))), Mx(i + 1))
       IN Mx(1)
  ELSE FSum([i \in 1..DoF(g) |-> IF IsAngular(g, i) THEN FMul(t[i], t[i]) ELSE Z])
Theta(g, t) == FSqrt(Theta2(g, t))
\* largest magnitude among the non-angular coordinates
LinMax(g, t) == VMaxAbs([i \in 1..DoF(g) |-> IF IsAngular(g, i) THEN Z ELSE t[i]])
LinScale(g, t) == FMax(O, LinMax(g, t))

\* number of series terms: enough for theta^k/k! * (polynomial in the linear parts) < 2^-100
CeilSmall(x) ==   \* ceiling of a Fix value known to be in [0, 64)
  LET RECURSIVE Up(_)
      Up(n) == IF n >= 64 \/ FLe(x, FInt(n)) THEN n ELSE Up(n + 1)
  IN Up(0)
TermsFor(g, t) == 48 + 8 * CeilSmall(Theta(g, t))
Converged(lastTerm) == FLe(MMaxAbs(lastTerm), FPow2(-90))

ExpOf(g, t) == ExpSeries(Hat(g, t), TermsFor(g, t))
JrOf(g, t)  == JrSeries(AdMat(g, t), TermsFor(g, t))
JlOf(g, t)  == JlSeries(AdMat(g, t), TermsFor(g, t))

\* scaling and squaring: exp(A) = exp(A/2^s)^(2^s), an independent way to evaluate the
\* exponential used to cross-check the plain series inside the specification
RECURSIVE SquareN(_,_)
SquareN(A, s) == IF s = 0 THEN A ELSE SquareN(MMul(A, A), s - 1)
ExpSS(A, s, K) == SquareN(ExpSeries(MScale(A, FPow2(-s)), K), s)
=============================================================================
