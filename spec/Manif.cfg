SPECIFICATION Spec
CONSTANTS Depth = 2
 Small = TRUE
 Export = FALSE
INVARIANT MemoFunctional
INVARIANT FrameOK
INVARIANT MaskTransparent
CONSTRAINT Bound
CHECK_DEADLOCK FALSE
