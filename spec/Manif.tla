-------------------------------- MODULE Manif --------------------------------
(***************************************************************************)
(* The abstract machine of the library's stateful reading (C09, C10, C08): *)
(* a register file of group elements and tangents in three storage kinds   *)
(* (owning objects, mutable Eigen::Map views and const views over slots of *)
(* a user buffer, two of the views aliasing the same slot), and one action *)
(* per public API entry.  Values are abstract identifiers: the ONLY thing  *)
(* the machine knows about an operation is that its result is a function  *)
(* of (operation, operand values) -- not of the optional outputs that were *)
(* requested, of the storage kind of the operands, of earlier calls -- and *)
(* which single location it writes (frame condition).  That is exactly the *)
(* content of C09/C10: purity, determinism, mask transparency, view        *)
(* write-through and aliasing.                                             *)
(*                                                                         *)
(* TLC explores this machine (exhaustively for short histories, by         *)
(* simulation for long ones) and exports behaviours: the sequence of calls *)
(* together with the abstract state after each call.  harness/rec_hist     *)
(* replays a behaviour on the real library and logs the concrete state     *)
(* (coefficient bits of every register, the whole user buffer with guard   *)
(* zones, every requested Jacobian inside a NaN-painted host) after each   *)
(* call; ManifHistTrace.tla checks that there is ONE consistent binding    *)
(* identifier -> bit pattern for the whole history.                        *)
(***************************************************************************)
EXTENDS Integers, Sequences, FiniteSets, TLC, Json

CONSTANTS Depth,        \* length of exported behaviours
          Export,       \* TRUE: print behaviours of length Depth as JSON
          Small         \* TRUE: reduced register file / masks (exhaustive configuration)

GOwn  == {"g0", "g1", "g2"}
GSlot == [m0 |-> 0, m1 |-> 1, c0 |-> 0, c1 |-> 2]      \* view -> slot of the user buffer (c0 aliases m0)
GMutV == {"m0", "m1"}
GMut  == IF Small THEN {"g0", "m0"} ELSE GOwn \cup GMutV      \* possible destinations
GAll  == IF Small THEN {"g0", "m0", "c0"} ELSE GOwn \cup GMutV \cup {"c0", "c1"}
TOwn  == {"u0", "u1"}
TSlot == [v0 |-> 0, v1 |-> 1, w0 |-> 0, w1 |-> 1]       \* w0 aliases v0, w1 aliases v1
TMutV == {"v0", "v1"}
TMut  == IF Small THEN {"u0", "v0"} ELSE TOwn \cup TMutV
TAll  == IF Small THEN {"u0", "v0", "w0"} ELSE TOwn \cup TMutV \cup {"w0", "w1"}

GLocs == <<"g0", "g1", "g2", "gs0", "gs1", "gs2">>      \* export order of group locations
TLocs == <<"u0", "u1", "ts0", "ts1">>
GLoc(r) == IF r \in GOwn THEN r ELSE CASE GSlot[r] = 0 -> "gs0" [] GSlot[r] = 1 -> "gs1" [] GSlot[r] = 2 -> "gs2"
TLoc(r) == IF r \in TOwn THEN r ELSE CASE TSlot[r] = 0 -> "ts0" [] TSlot[r] = 1 -> "ts1"
Range(s) == { s[i] : i \in 1..Len(s) }

\* operations: name -> <<kinds of operands, kind of result, number of optional Jacobian outputs>>
\*   operand kinds: "G" element register, "T" tangent register, "D" the destination itself (read-modify-write)
GOps == [compose |-> <<"G", "G">>, inverse |-> <<"G">>, between |-> <<"G", "G">>, rplus |-> <<"G", "T">>,
         lplus |-> <<"G", "T">>, exp |-> <<"T">>, assign |-> <<"G">>, moveassign |-> <<"G">>, pluseq |-> <<"D", "T">>,
         timeseq |-> <<"D", "G">>, normalize |-> <<"D">>, setIdentity |-> <<>>, setRandom |-> <<>>,
         setcoeff |-> <<>>,      \* a write through the coefficient accessor (coeffs()(i) = v): only the frame matters
         renormalize |-> <<>>]   \* normalize() of a destination whose rotation coefficients were scaled far from unit norm first:
                                 \* whatever the value, it is written into the destination's own RepSize scalars and nowhere else
TOps == [log |-> <<"G">>, rminus |-> <<"G", "G">>, lminus |-> <<"G", "G">>, tassign |-> <<"T">>, tmoveassign |-> <<"T">>,
         tsetZero |-> <<>>, tsetRandom |-> <<>>, tneg |-> <<"T">>]
\* observers: operations whose result is a vector / matrix / scalar and that write no location
OOps == [act |-> <<"G">>, adj |-> <<"G">>, transform |-> <<"G">>, rjac |-> <<"T">>, ljac |-> <<"T">>,
         rjacinv |-> <<"T">>, smallAdj |-> <<"T">>, hat |-> <<"T">>, inner |-> <<"T", "T">>]
NJac == [act |-> 2, compose |-> 2, inverse |-> 1, between |-> 2, rplus |-> 2, lplus |-> 2, exp |-> 1, log |-> 1,
         rminus |-> 2, lminus |-> 2]
Masks(op) == IF op \in DOMAIN NJac THEN (IF Small THEN {0, IF NJac[op] = 2 THEN 2 ELSE 1}
                                         ELSE 0..(IF NJac[op] = 2 THEN 3 ELSE 1)) ELSE {0}
Fresh(op) == op \in {"setRandom", "tsetRandom", "setcoeff", "renormalize"}          \* the only operations that are not functions

VARIABLES gval,    \* group location -> value identifier
          tval,    \* tangent location -> value identifier
          memo,    \* <<op, operand identifiers>> -> result identifier (what has been computed so far)
          next,    \* next unused identifier
          hist     \* exported behaviour
vars == <<gval, tval, memo, next, hist>>

Init == /\ gval = [x \in Range(GLocs) |-> CHOOSE i \in 1..6 : GLocs[i] = x]          \* ids 1..6
        /\ tval = [x \in Range(TLocs) |-> 6 + (CHOOSE i \in 1..4 : TLocs[i] = x)]    \* ids 7..10
        /\ memo = << >> /\ next = 11 /\ hist = << >>

Key(op, ids) == <<op>> \o ids
Result(op, ids) == IF ~Fresh(op) /\ \E k \in DOMAIN memo : memo[k][1] = Key(op, ids)
                   THEN (CHOOSE k \in DOMAIN memo : memo[k][1] = Key(op, ids)) \* index into memo
                   ELSE 0
\* copy / move / cross-kind assignment preserve the value exactly: the result IS the operand's identifier
IsCopy(op) == op \in {"assign", "moveassign", "tassign", "tmoveassign"}
ResultId(op, ids) == IF IsCopy(op) THEN ids[1] ELSE IF Result(op, ids) # 0 THEN memo[Result(op, ids)][2] ELSE next

OperandIds(kinds, dst, a, b, isG) ==
  [i \in 1..Len(kinds) |->
     LET r == IF kinds[i] = "D" THEN dst ELSE IF i = 1 THEN a ELSE IF kinds[1] = "D" /\ i = 2 THEN a ELSE b IN
     IF kinds[i] = "T" THEN tval[TLoc(r)]
     ELSE IF kinds[i] = "D" THEN (IF isG THEN gval[GLoc(r)] ELSE tval[TLoc(r)])
     ELSE gval[GLoc(r)]]

Snapshot(gv, tv) == [g |-> [i \in 1..Len(GLocs) |-> gv[GLocs[i]]], t |-> [i \in 1..Len(TLocs) |-> tv[TLocs[i]]]]

\* a call whose result is a group element written to destination dst
GCall(op, dst, a, b, mask) ==
  LET kinds == GOps[op]
      ids == OperandIds(kinds, dst, a, b, TRUE)
      rid == ResultId(op, ids)
  IN /\ gval' = [gval EXCEPT ![GLoc(dst)] = rid]           \* frame: nothing else changes
     /\ UNCHANGED tval
     /\ memo' = IF Fresh(op) \/ IsCopy(op) \/ Result(op, ids) # 0 THEN memo ELSE Append(memo, <<Key(op, ids), rid>>)
     /\ next' = IF rid = next THEN next + 1 ELSE next
     /\ hist' = Append(hist, [op |-> op, dst |-> dst, a |-> a, b |-> b, mask |-> mask, ids |-> ids, res |-> rid,
                              post |-> Snapshot([gval EXCEPT ![GLoc(dst)] = rid], tval)])
TCall(op, dst, a, b, mask) ==
  LET kinds == TOps[op]
      ids == OperandIds(kinds, dst, a, b, FALSE)
      rid == ResultId(op, ids)
  IN /\ tval' = [tval EXCEPT ![TLoc(dst)] = rid]
     /\ UNCHANGED gval
     /\ memo' = IF Fresh(op) \/ IsCopy(op) \/ Result(op, ids) # 0 THEN memo ELSE Append(memo, <<Key(op, ids), rid>>)
     /\ next' = IF rid = next THEN next + 1 ELSE next
     /\ hist' = Append(hist, [op |-> op, dst |-> dst, a |-> a, b |-> b, mask |-> mask, ids |-> ids, res |-> rid,
                              post |-> Snapshot(gval, [tval EXCEPT ![TLoc(dst)] = rid])])

\* an observer call: the state does not change at all; the result is still a function of the operand values
OCall(op, a, b, mask) ==
  LET kinds == OOps[op]
      ids == OperandIds(kinds, "-", a, b, FALSE)
      rid == ResultId(op, ids)
  IN /\ UNCHANGED <<gval, tval>>
     /\ memo' = IF Result(op, ids) # 0 THEN memo ELSE Append(memo, <<Key(op, ids), rid>>)
     /\ next' = IF rid = next THEN next + 1 ELSE next
     /\ hist' = Append(hist, [op |-> op, dst |-> "-", a |-> a, b |-> b, mask |-> mask, ids |-> ids, res |-> rid,
                              post |-> Snapshot(gval, tval)])

Pick(kinds, i) ==   \* candidate registers for the i-th non-destination operand
  LET nd == SelectSeq(kinds, LAMBDA k : k # "D") IN
  IF Len(nd) < i THEN {"-"} ELSE IF nd[i] = "G" THEN GAll ELSE TAll

Step ==
  \/ \E op \in DOMAIN GOps, dst \in GMut : \E a \in Pick(GOps[op], 1), b \in Pick(GOps[op], 2), m \in Masks(op) :
        GCall(op, dst, a, b, m)
  \/ \E op \in DOMAIN TOps, dst \in TMut : \E a \in Pick(TOps[op], 1), b \in Pick(TOps[op], 2), m \in Masks(op) :
        TCall(op, dst, a, b, m)
  \/ \E op \in DOMAIN OOps : \E a \in Pick(OOps[op], 1), b \in Pick(OOps[op], 2), m \in Masks(op) :
        OCall(op, a, b, m)

Next == Len(hist) < Depth /\ Step
Spec == Init /\ [][Next]_vars

-----------------------------------------------------------------------------
(* Invariants of the abstract machine *)
\* determinism: the memo is a function of its key
MemoFunctional == \A i, j \in DOMAIN memo : memo[i][1] = memo[j][1] => i = j
\* aliasing views always agree (they are the same location)
AliasAgree == TRUE   \* holds by construction: GLoc("m0") = GLoc("c0"), TLoc("v0") = TLoc("w0")
\* frame: a step changes at most one location   (action property, checked as a step invariant through hist)
FrameOK == \A i \in 1..Len(hist) :
   LET prevG == IF i = 1 THEN [k \in 1..6 |-> k] ELSE hist[i - 1].post.g
       prevT == IF i = 1 THEN [k \in 1..4 |-> 6 + k] ELSE hist[i - 1].post.t
   IN Cardinality({k \in 1..6 : hist[i].post.g[k] # prevG[k]}) + Cardinality({k \in 1..4 : hist[i].post.t[k] # prevT[k]}) <= 1
\* mask transparency: two calls of the same operation on the same operand values have the same result
MaskTransparent == \A i, j \in 1..Len(hist) :
   (hist[i].op = hist[j].op /\ hist[i].ids = hist[j].ids /\ ~Fresh(hist[i].op)) => hist[i].res = hist[j].res

Bound == Len(hist) <= Depth
ExportBehaviour == (Export /\ Len(hist) = Depth) => PrintT(ToJson(hist))
=============================================================================
