SPECIFICATION HSpec
POSTCONDITION TraceAccepted
CHECK_DEADLOCK FALSE
