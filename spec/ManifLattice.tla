---------------------------- MODULE ManifLattice ----------------------------
(***************************************************************************)
(* C01 on exact lattices: the closed-form group laws on COEFFICIENT vectors *)
(* (the documented formulas: quaternion / complex product, R t' + t, the   *)
(* SE_2(3) and SGal(3) couplings) written over the integers, explored       *)
(* exhaustively by TLC on the sub-groups whose coefficients are exactly     *)
(* representable in binary floating point:                                  *)
(*   rotations: the 24 Hurwitz unit quaternions (doubled integer            *)
(*   coefficients; angles 0, 2pi/3, pi, 4pi/3, 2pi; both hemispheres, w=0)  *)
(*   resp. the 4 quarter turns of the plane; translations / velocities /    *)
(*   time: integers with magnitude <= Bound.                                *)
(* One register X; every step composes X with a generator on either side    *)
(* or inverts it, so the reachable set is the whole bounded lattice.  In     *)
(* every reachable state TLC checks that the coefficient formulas REFINE     *)
(* the matrix model: M(X o g) = M(X) M(g), M(g o X) = M(g) M(X),             *)
(* M(X^-1) M(X) = I = M(X) M(X^-1), act = matrix applied to the homogeneous  *)
(* point, associativity, closure.  Every reachable state is exported; the    *)
(* recorder evaluates the real library on it (and on the generators) and     *)
(* LatticeTrace.tla demands EXACT agreement with these integer formulas.     *)
(***************************************************************************)
EXTENDS Integers, Sequences, FiniteSets, TLC, Json

CONSTANTS Kind,     \* "SE2" | "SO3" | "SE3" | "SE_2_3" | "SGal3"
          Bound     \* max |integer coordinate|

Planar == Kind = "SE2"
\* ---- rotations
Q24 == { <<0,0,0,2>>, <<0,0,0,-2>>, <<2,0,0,0>>, <<-2,0,0,0>>, <<0,2,0,0>>, <<0,-2,0,0>>, <<0,0,2,0>>, <<0,0,-2,0>> }
       \cup { <<a,b,c,d>> : a \in {-1,1}, b \in {-1,1}, c \in {-1,1}, d \in {-1,1} }
C4 == { <<1,0>>, <<0,1>>, <<-1,0>>, <<0,-1>> }
QMul(p, q) == IF Planar THEN << p[1]*q[1] - p[2]*q[2], p[1]*q[2] + p[2]*q[1] >>
  ELSE LET x1 == p[1] y1 == p[2] z1 == p[3] w1 == p[4] x2 == q[1] y2 == q[2] z2 == q[3] w2 == q[4] IN
  << (w1*x2 + x1*w2 + y1*z2 - z1*y2) \div 2, (w1*y2 - x1*z2 + y1*w2 + z1*x2) \div 2,
     (w1*z2 + x1*y2 - y1*x2 + z1*w2) \div 2, (w1*w2 - x1*x2 - y1*y2 - z1*z2) \div 2 >>
QConj(p) == IF Planar THEN << p[1], -p[2] >> ELSE << -p[1], -p[2], -p[3], p[4] >>
QOne == IF Planar THEN <<1,0>> ELSE <<0,0,0,2>>
Rot(c) == IF Planar THEN << <<c[1], -c[2]>>, <<c[2], c[1]>> >>
  ELSE LET x == c[1] y == c[2] z == c[3] w == c[4] IN
  << << (w*w + x*x - y*y - z*z) \div 4, (2*x*y - 2*w*z) \div 4, (2*x*z + 2*w*y) \div 4 >>,
     << (2*x*y + 2*w*z) \div 4, (w*w - x*x + y*y - z*z) \div 4, (2*y*z - 2*w*x) \div 4 >>,
     << (2*x*z - 2*w*y) \div 4, (2*y*z + 2*w*x) \div 4, (w*w - x*x - y*y + z*z) \div 4 >> >>
N == IF Planar THEN 2 ELSE 3
MV(R, v) == [i \in 1..N |-> IF N = 2 THEN R[i][1]*v[1] + R[i][2]*v[2] ELSE R[i][1]*v[1] + R[i][2]*v[2] + R[i][3]*v[3]]
VAdd(a, b) == [i \in 1..N |-> a[i] + b[i]]
VNeg(a) == [i \in 1..N |-> -a[i]]
VScl(a, k) == [i \in 1..N |-> a[i] * k]
V0 == [i \in 1..N |-> 0]
HasT == Kind \in {"SE2", "SE3", "SE_2_3", "SGal3"}
HasV == Kind \in {"SE_2_3", "SGal3"}
HasS == Kind = "SGal3"

\* ---- the group laws on coefficients (elements are records q, t, v, s; unused parts are zero)
Compose(X, Y) ==
  LET R == Rot(X.q) IN
  [q |-> QMul(X.q, Y.q),
   t |-> IF HasS THEN VAdd(VAdd(MV(R, Y.t), VScl(X.v, Y.s)), X.t) ELSE IF HasT THEN VAdd(MV(R, Y.t), X.t) ELSE V0,
   v |-> IF HasV THEN VAdd(MV(R, Y.v), X.v) ELSE V0,
   s |-> IF HasS THEN X.s + Y.s ELSE 0]
Inverse(X) ==
  LET Rt == Rot(QConj(X.q)) IN
  [q |-> QConj(X.q),
   t |-> IF HasS THEN VNeg(MV(Rt, VAdd(X.t, VNeg(VScl(X.v, X.s))))) ELSE IF HasT THEN VNeg(MV(Rt, X.t)) ELSE V0,
   v |-> IF HasV THEN VNeg(MV(Rt, X.v)) ELSE V0,
   s |-> IF HasS THEN -X.s ELSE 0]
Ident == [q |-> QOne, t |-> V0, v |-> V0, s |-> 0]
Act(X, p) == IF HasT THEN VAdd(MV(Rot(X.q), p), X.t) ELSE MV(Rot(X.q), p)

\* ---- the matrix model (homogeneous matrices over the integers)
MSize == CASE Kind = "SE2" -> 3 [] Kind \in {"SO3", "SE3"} -> 4 [] OTHER -> 5
M(X) == LET R == Rot(X.q) IN
  [i \in 1..MSize |-> [j \in 1..MSize |->
     IF i <= N /\ j <= N THEN R[i][j]
     ELSE IF i > N /\ j <= N THEN 0
     ELSE IF i > N THEN (IF i = j THEN 1 ELSE IF HasS /\ i = N + 1 /\ j = N + 2 THEN X.s ELSE 0)
     ELSE \* i <= N, j > N: the linear columns
       CASE Kind \in {"SE2", "SE3"} -> (IF j = N + 1 THEN X.t[i] ELSE 0)
         [] Kind = "SO3" -> 0
         [] Kind = "SE_2_3" -> (IF j = N + 1 THEN X.t[i] ELSE X.v[i])
         [] Kind = "SGal3" -> (IF j = N + 1 THEN X.v[i] ELSE X.t[i])]]
MM(A, C) == [i \in 1..MSize |-> [j \in 1..MSize |->
               LET RECURSIVE S(_)
                   S(k) == IF k > MSize THEN 0 ELSE A[i][k] * C[k][j] + S(k + 1)
               IN S(1)]]
MI == [i \in 1..MSize |-> [j \in 1..MSize |-> IF i = j THEN 1 ELSE 0]]
Embed(p) == CASE Kind \in {"SE2", "SO3", "SE3"} -> [i \in 1..MSize |-> IF i <= N THEN p[i] ELSE 1]
              [] Kind = "SE_2_3" -> [i \in 1..MSize |-> IF i <= N THEN p[i] ELSE IF i = N + 1 THEN 1 ELSE 0]
              [] Kind = "SGal3" -> [i \in 1..MSize |-> IF i <= N THEN p[i] ELSE IF i = N + 1 THEN 0 ELSE 1]
MApply(A, h) == [i \in 1..N |-> LET RECURSIVE S(_)
                                   S(k) == IF k > MSize THEN 0 ELSE A[i][k] * h[k] + S(k + 1) IN S(1)]

\* ---- generators of the lattice: a few rotations that generate the rotation group, unit shifts
Unit(i) == [k \in 1..N |-> IF k = i THEN 1 ELSE 0]
RotGens == IF Planar THEN { <<0,1>> } ELSE { <<2,0,0,0>>, <<1,1,1,1>>, <<0,0,0,-2>>, <<1,-1,1,-1>> }
Gens == { [q |-> r, t |-> V0, v |-> V0, s |-> 0] : r \in RotGens }
        \cup (IF HasT THEN { [q |-> QOne, t |-> Unit(1), v |-> V0, s |-> 0], [q |-> QOne, t |-> VNeg(Unit(N)), v |-> V0, s |-> 0] } ELSE {})
        \cup (IF HasV THEN { [q |-> QOne, t |-> V0, v |-> Unit(2), s |-> 0] } ELSE {})
        \cup (IF HasS THEN { [q |-> QOne, t |-> V0, v |-> V0, s |-> 1], [q |-> QOne, t |-> V0, v |-> V0, s |-> -1] } ELSE {})
Points == { Unit(1), VNeg(Unit(N)), [k \in 1..N |-> k] }

InBound(X) == /\ \A i \in 1..N : X.t[i] \in -Bound..Bound /\ X.v[i] \in -Bound..Bound
              /\ X.s \in -Bound..Bound

VARIABLE X
Init == X = Ident
Next == \/ \E g \in Gens : X' = Compose(X, g)
        \/ \E g \in Gens : X' = Compose(g, X)
        \/ X' = Inverse(X)
Spec == Init /\ [][Next]_X

\* ---- what TLC checks in every reachable state
Closed == X.q \in (IF Planar THEN C4 ELSE Q24)
Homomorphism == \A g \in Gens : /\ M(Compose(X, g)) = MM(M(X), M(g))
                                /\ M(Compose(g, X)) = MM(M(g), M(X))
InverseTwoSided == /\ MM(M(Inverse(X)), M(X)) = MI /\ MM(M(X), M(Inverse(X))) = MI
                   /\ Compose(X, Inverse(X)).t = V0 /\ Compose(Inverse(X), X).t = V0
IdentityNeutral == Compose(X, Ident) = X /\ Compose(Ident, X) = X /\ M(Ident) = MI
Associative == \A g, h \in Gens : Compose(Compose(X, g), h) = Compose(X, Compose(g, h))
ActIsMatrix == \A p \in Points : Act(X, p) = MApply(M(X), Embed(p))
InBoundX == InBound(X)
Export == PrintT(ToJson([q |-> X.q, t |-> X.t, v |-> X.v, s |-> X.s]))
\* the generator set and the probe points, exported once for the recorder
RECURSIVE SetToSeq(_)
SetToSeq(S) == IF S = {} THEN << >> ELSE LET e == CHOOSE x \in S : TRUE IN <<e>> \o SetToSeq(S \ {e})
ExportGens == PrintT(ToJson([gens |-> SetToSeq(Gens), points |-> SetToSeq(Points)]))
ASSUME ExportGens
=============================================================================
