SPECIFICATION Spec
CONSTANTS Kind = "SGal3"
 Bound = 1
INVARIANT Closed
INVARIANT Homomorphism
INVARIANT InverseTwoSided
INVARIANT IdentityNeutral
INVARIANT Associative
INVARIANT ActIsMatrix
CONSTRAINT InBoundX
INVARIANT Export
CHECK_DEADLOCK FALSE
