SPECIFICATION Spec
CONSTANTS Kind = "SO3"
 Bound = 2
INVARIANT Closed
INVARIANT Homomorphism
INVARIANT InverseTwoSided
INVARIANT IdentityNeutral
INVARIANT Associative
INVARIANT ActIsMatrix
CONSTRAINT InBoundX
INVARIANT Export
CHECK_DEADLOCK FALSE
