SPECIFICATION Spec
CONSTANTS Depth = 1
 Small = FALSE
 Export = TRUE
INVARIANT MemoFunctional
INVARIANT FrameOK
INVARIANT ExportBehaviour
CONSTRAINT Bound
CHECK_DEADLOCK FALSE
