SPECIFICATION Spec
CONSTANTS Depth = 14
 Small = FALSE
 Export = TRUE
INVARIANT MemoFunctional
INVARIANT FrameOK
INVARIANT MaskTransparent
INVARIANT ExportBehaviour
CONSTRAINT Bound
CHECK_DEADLOCK FALSE
