----------------------------- MODULE ManifTrace -----------------------------
(***************************************************************************)
(* Trace validation of recorded manif calls against the matrix-group model *)
(* (Groups/LieMath) evaluated exactly (Fix).                               *)
(*                                                                         *)
(* The trace (ndjson, one event per public call, written by harness/rec_*  *)
(* after the call returned) is consumed one event per step.  For every     *)
(* event the specification recomputes what the mathematical model says the *)
(* call must return from the LOGGED INPUT BITS ONLY and compares with the  *)
(* logged output bits under the tolerance model below.  Every comparison   *)
(* yields a ratio error/tolerance in thousandths; an event conforms iff    *)
(* all its ratios are <= 1000.  Ratios are printed (one "V" line per       *)
(* event) so that tools/vcheck can build verdicts, coverage per stratum    *)
(* and calibration tables; acceptance of the trace as a whole is the       *)
(* POSTCONDITION that every line was consumed.                             *)
(***************************************************************************)
EXTENDS LieMath, TLC, Json, IOUtils

Tr == ndJsonDeserialize(IOEnv.TRACE)

-----------------------------------------------------------------------------
(* decoding *)
D(p)  == FDbl(p[1], p[2])
DV(s) == VStrict([i \in 1..Len(s) |-> D(s[i])])
DM(m) == MStrict([i \in 1..Len(m) |-> [j \in 1..Len(m[1]) |-> D(m[i][j])]])
FinV(s) == \A i \in 1..Len(s) : FIsFinite(s[i][1], s[i][2])
FinM(m) == \A i \in 1..Len(m) : FinV(m[i])
Has(ev, f) == f \in DOMAIN ev

-----------------------------------------------------------------------------
(* Tolerance model (DESIGN.md 2.5).                                        *)
(*  u    unit round-off of the scalar type of the event                    *)
(*  WP   working precision: 2^10 u                                         *)
(*  FD   finite-difference grade for Jacobians: 1e-6 (double), 1e-3 (float)*)
(*  Floor absorbs the truncation of Fix itself (2^-195) and denormal steps   *)
UOf(ev)  == IF ev.sc = "f" THEN FPow2(-24) ELSE FPow2(-53)
WPOf(ev) == IF ev.sc = "f" THEN FPow2(-14) ELSE FPow2(-43)
FDOf(ev) == IF ev.sc = "f" THEN FDivInt(O, 1000) ELSE FDiv(O, FInt(1000000))
\* absolute floor: a few denormal ulps of the scalar type (float denormals are 2^-149) resp. the
\* resolution of Fix itself
FloorOf(ev) == IF ev.sc = "f" THEN FPow2(-140) ELSE FPow2(-170)

\* entry-wise tolerance  (wp + 2^10 |delta|) * S + floor
TolMat(S, wp, delta, Floor) ==
  LET f == FAdd(wp, FMulInt(FAbs(delta), 1024))
  IN MStrict([i \in 1..Len(S) |-> [j \in 1..Len(S[1]) |-> FAdd(FMul(S[i][j], f), Floor)]])
ColOf(v) == [i \in 1..Len(v) |-> <<v[i]>>]       \* vector as a one-column matrix
VRatio(a, b, tolv) == MRatioMilli(ColOf(a), ColOf(b), ColOf(tolv))

\* unit scale of tangent coordinate i: 1 for angles, L for lengths / velocities / time
UnitT(g, L) == [i \in 1..DoF(g) |-> IF IsAngular(g, i) THEN O ELSE L]
\* |dJ_ij| <= fd * max(|J_ij|, rowU_i / colU_j)
JTol(J, rowU, colU, fd, Floor) ==
  MStrict([i \in 1..Len(J) |-> [j \in 1..Len(J[1]) |->
     FAdd(FMul(fd, FMax(FAbs(J[i][j]), FDiv(rowU[i], colU[j]))), Floor)]])

\* largest magnitude among the non-rotation coefficients of an element
RECURSIVE IsRotCoeff(_,_)
IsRotCoeff(g, i) ==
  CASE g.k = "SO2" -> TRUE [] g.k = "SE2" -> i >= 3 [] g.k = "SO3" -> TRUE
    [] g.k \in {"SE3", "SE_2_3", "SGal3"} -> i \in 4..7
    [] g.k = "Rn" -> FALSE
    [] g.k = "Bundle" -> LET p == PartOf(Rep, g.parts, i, 1)
                         IN IsRotCoeff(g.parts[p], i - Off(Rep, g.parts, p))
LinCoeffMax(g, c) == VMaxAbs([i \in 1..Len(c) |-> IF IsRotCoeff(g, i) THEN Z ELSE c[i]])
\* deviation of the rotation coefficients from unit norm (sum over bundle parts)
RECURSIVE Dev(_,_)
Dev(g, c) ==
  IF g.k = "Bundle"
  THEN FSum([i \in 1..Len(g.parts) |->
         Dev(g.parts[i], SubSeq(c, Off(Rep, g.parts, i) + 1, Off(Rep, g.parts, i) + Rep(g.parts[i])))])
  ELSE FAbs(SqNormDev(g, c))

\* Entries of a rotation block have natural scale 1 whatever their value (they are sums of
\* products of unit-quaternion / unit-complex coefficients), so magnitude bounds of group
\* matrices use |A| + 1 on the rotation block.
RECURSIVE RotDim(_)
RotDim(g) == CASE g.k \in {"SO2", "SE2"} -> 2 [] g.k \in {"SO3", "SE3", "SE_2_3", "SGal3"} -> 3 [] OTHER -> 0
RECURSIVE RotOnes(_)
RotOnes(g) ==
  IF g.k = "Bundle"
  THEN MStrict(BlockDiag([i \in 1..Len(g.parts) |-> RotOnes(g.parts[i])],
                         [i \in 1..Len(g.parts) |-> MatN(g.parts[i])], MatN(g), 0))
  ELSE [i \in 1..MatN(g) |-> [j \in 1..MatN(g) |-> IF i <= RotDim(g) /\ j <= RotDim(g) THEN O ELSE Z]]
AbsR(g, A) == MAdd(MAbs(A), RotOnes(g))

\* magnitude bound of exp(hat t): the exponential series of the entry-wise absolute value of
\* hat(t) with the angular coordinates capped at magnitude 1 (rotation entries are <= 1 anyway;
\* the cap keeps the bound from growing like e^theta).  Bounds every partial product that the
\* true exponential is made of, so it is the natural scale of the rounding error of each entry.
CapAng(g, t) == [i \in 1..DoF(g) |-> IF IsAngular(g, i) THEN FMax(FNeg(O), FMin(O, t[i])) ELSE t[i]]
SExp(g, t) == ExpSeries(MAbs(Hat(g, CapAng(g, t))), 10)

Pi == FPi
\* natural scale of each tangent coordinate of t: 1 for angles; for a linear coordinate the
\* magnitude bound SExp of the matrix entry its generator occupies (|rho| + |iota||nu| for the
\* position of SGal3, plain |rho| elsewhere), at least 1
TanScale(g, t) == LET S == SExp(g, t) IN
  [i \in 1..DoF(g) |-> IF IsAngular(g, i) THEN O
                        ELSE LET e == CHOOSE x \in GenEntries(g, i) : TRUE IN FMax(O, S[e[1]][e[2]])]

-----------------------------------------------------------------------------
(* Items: sequences of <<name, ratio>> per event kind.                     *)
Item(name, ratio) == <<name, ratio>>
BadFinite == << Item("finite", 2000000000) >>

\* value of a group-valued result against a model matrix P with magnitude bound S
GroupItem(ev, name, g, rc, P, S, delta) ==
  Item(name, MRatioMilli(M(g, rc), P, TolMat(S, WPOf(ev), delta, FloorOf(ev))))
JItem(ev, name, Jimpl, Jmodel, rowU, colU) ==
  Item(name, MRatioMilli(Jimpl, Jmodel, JTol(Jmodel, rowU, colU, FDOf(ev), FloorOf(ev))))
\* the same with an additional working-precision term on a magnitude bound Bnd of the entries
\* (entries of Ad_X are differences of products such as iota*v - [t]x R ...: their rounding error
\* scales with the bound of the products, not with the possibly cancelled value)
JItemB(ev, name, Jimpl, Jmodel, rowU, colU, Bnd) ==
  Item(name, MRatioMilli(Jimpl, Jmodel,
       MAdd(JTol(Jmodel, rowU, colU, FDOf(ev), FloorOf(ev)), MScale(Bnd, WPOf(ev)))))
\* entry-wise bound of Ad_X: the definition evaluated on absolute values
VeeAbs(g, A) == VStrict([i \in 1..DoF(g) |->
   LET E == GenEntries(g, i)
       RECURSIVE Acc(_)
       Acc(S) == IF S = {} THEN Z ELSE LET e == CHOOSE x \in S : TRUE IN FAdd(FAbs(A[e[1]][e[2]]), Acc(S \ {e}))
   IN Acc(E)])
AdjAbs(g, X) == LET Xa == AbsR(g, X)  Xia == AbsR(g, MInv(X)) IN
  MStrict(MFromCols([i \in 1..DoF(g) |-> VeeAbs(g, MMul(MMul(Xa, MAbs(Gen(g, i))), Xia))]))

ComposeItems(ev) ==
  LET g == ev.g  a == DV(ev.a)  b == DV(ev.b)  r == DV(ev.r)
      Ma == M(g, a)  Mb == M(g, b)
      L == FMax(O, FMax(LinCoeffMax(g, a), LinCoeffMax(g, b)))
      U == UnitT(g, L)
  IN << GroupItem(ev, "r", g, r, MMul(Ma, Mb), MMul(AbsR(g, Ma), AbsR(g, Mb)), FAdd(Dev(g, a), Dev(g, b))) >>
     \o (IF Has(ev, "Ja") THEN << JItemB(ev, "Ja", DM(ev.Ja), AdjMat(g, MInv(Mb)), U, U, AdjAbs(g, MInv(Mb))) >> ELSE <<>>)
     \o (IF Has(ev, "Jb") THEN << JItem(ev, "Jb", DM(ev.Jb), MId(DoF(g)), U, U) >> ELSE <<>>)

InverseItems(ev) ==
  LET g == ev.g  a == DV(ev.a)  r == DV(ev.r)
      Ma == M(g, a)  P == MInv(Ma)
      U == UnitT(g, FMax(O, LinCoeffMax(g, a)))
  IN << GroupItem(ev, "r", g, r, P, MMul(MMul(AbsR(g, P), AbsR(g, Ma)), AbsR(g, P)), Dev(g, a)) >>
     \o (IF Has(ev, "Ja") THEN << JItemB(ev, "Ja", DM(ev.Ja), MNeg(AdjMat(g, Ma)), U, U, AdjAbs(g, Ma)) >> ELSE <<>>)

ActItems(ev) ==
  LET g == ev.g  a == DV(ev.a)  p == DV(ev.pt)  v == DV(ev.rv)
      Ma == M(g, a)  ph == Embed(g, p)
      model == Project(g, MVec(Ma, ph))
      S == Project(g, MVec(AbsR(g, Ma), [i \in 1..Len(ph) |-> FAbs(ph[i])]))
      f == FAdd(WPOf(ev), FMulInt(Dev(g, a), 1024))
      tolv == [i \in 1..Len(S) |-> FAdd(FMul(S[i], f), FloorOf(ev))]
      L == FMax(O, FMax(LinCoeffMax(g, a), VMaxAbs(p)))
      rowU == [i \in 1..Dim(g) |-> L]
      Jm == MFromCols([i \in 1..DoF(g) |-> Project(g, MVec(MMul(Ma, Gen(g, i)), ph))])
      zero == [i \in 1..Dim(g) |-> Z]
      Jp == MFromCols([j \in 1..Dim(g) |->
              Project(g, MVec(Ma, VSub(Embed(g, [i \in 1..Dim(g) |-> IF i = j THEN O ELSE Z]), Embed(g, zero))))])
  IN << Item("rv", VRatio(v, model, tolv)) >>
     \o (IF Has(ev, "Ja") THEN << JItem(ev, "Ja", DM(ev.Ja), Jm, rowU, UnitT(g, L)) >> ELSE <<>>)
     \o (IF Has(ev, "Jp") THEN << JItem(ev, "Jp", DM(ev.Jp), Jp, rowU, rowU) >> ELSE <<>>)

IdentityItems(ev) ==
  LET g == ev.g  N == MatN(g)  zeroTol == [i \in 1..N |-> [j \in 1..N |-> FloorOf(ev)]]
  IN << Item("r", MRatioMilli(M(g, DV(ev.r)), MId(N), zeroTol)),
        Item("r2", MRatioMilli(M(g, DV(ev.r2)), MId(N), zeroTol)),
        Item("rm", MRatioMilli(DM(ev.rm), MId(N), zeroTol)) >>

TransformItems(ev) ==
  LET g == ev.g  a == DV(ev.a)  Ma == M(g, a)
      tol == TolMat(AbsR(g, Ma), WPOf(ev), Dev(g, a), FloorOf(ev))
      sizeOK == Len(ev.rm) = MatN(g) /\ Len(ev.rm[1]) = MatN(g)
  IN << Item("rm", IF sizeOK THEN MRatioMilli(DM(ev.rm), Ma, tol) ELSE 2000000000) >>
     \o (IF Has(ev, "rot")
         THEN LET n == Len(ev.rot) IN
              << Item("rot", MRatioMilli(DM(ev.rot), MBlock(Ma, 1, 1, n, n), MBlock(tol, 1, 1, n, n))) >>
         ELSE <<>>)

\* t, r [, Jt]
ExpItems(ev) ==
  LET g == ev.g  t == DV(ev.t)  r == DV(ev.r)
      U == UnitT(g, LinScale(g, t))
  IN << GroupItem(ev, "r", g, r, ExpOf(g, t), SExp(g, t), Z) >>
     \o (IF Has(ev, "Jt") THEN << JItem(ev, "Jt", DM(ev.Jt), JrOf(g, t), U, U) >> ELSE <<>>)

\* IsLog(X, tau): exp(hat tau) = X as a transformation, rotation angle at most pi
IsLogItems(ev, g, X, S0, tau, delta) ==
  << Item("rt", MRatioMilli(ExpOf(g, tau), X, TolMat(MAdd(SExp(g, tau), S0), WPOf(ev), delta, FloorOf(ev)))),
     Item("angle", IF FLe(Theta(g, tau), FMul(Pi, FAdd(O, FPow2(-20)))) THEN 0 ELSE 2000000000) >>

LogItems(ev) ==
  LET g == ev.g  a == DV(ev.a)  tau == DV(ev.rt)
      Ma == M(g, a)
      U == UnitT(g, FMax(O, FMax(LinCoeffMax(g, a), LinMax(g, tau))))
  IN IsLogItems(ev, g, Ma, AbsR(g, Ma), tau, Dev(g, a))
     \o (IF Has(ev, "Ja") THEN << JItem(ev, "Ja", DM(ev.Ja), MInv(JrOf(g, tau)), U, U) >> ELSE <<>>)

\* round trip t -> exp -> log: inside the injectivity radius the logarithm must return t
ExpLogItems(ev) ==
  LET g == ev.g  t == DV(ev.t)  a == DV(ev.a)  tau == DV(ev.rt)
      Ma == M(g, a)
      th == Theta(g, t)
      gap == FSub(Pi, th)
      inside == FLt(FPow2(-16), gap)
      cond == FAdd(O, FDiv(O, FMax(gap, FPow2(-16))))     \* 1 + 1/(pi - theta)
      TS == TanScale(g, t)
      tolv == [i \in 1..DoF(g) |-> FAdd(FMul(FMul(WPOf(ev), cond), TS[i]), FloorOf(ev))]
  IN << GroupItem(ev, "r", g, a, ExpOf(g, t), SExp(g, t), Z) >>
     \o IsLogItems(ev, g, Ma, AbsR(g, Ma), tau, Dev(g, a))
     \o (IF inside THEN << Item("roundtrip", VRatio(tau, t, tolv)) >> ELSE <<>>)

\* the logarithm of q and of -q (same transformation) agree
LogTwinItems(ev) ==
  LET g == ev.g  a == DV(ev.a)  b == DV(ev.b)  t1 == DV(ev.rt)  t2 == DV(ev.rt2)
      Ma == M(g, a)
      gap == FSub(Pi, Theta(g, t1))
      TS == TanScale(g, t1)
      tolv == [i \in 1..DoF(g) |-> FAdd(FMul(FMulInt(WPOf(ev), 4), TS[i]), FloorOf(ev))]
  IN IsLogItems(ev, g, Ma, AbsR(g, Ma), t1, Dev(g, a))
     \o << Item("sameM", MRatioMilli(M(g, b), Ma, TolMat(AbsR(g, Ma), WPOf(ev), FAdd(Dev(g, a), Dev(g, b)), FloorOf(ev)))) >>
     \o (IF FLt(FPow2(-16), gap) THEN << Item("twin", VRatio(t2, t1, tolv)) >> ELSE <<>>)

RPlusItems(ev, left) ==
  LET g == ev.g  a == DV(ev.a)  t == DV(ev.t)  r == DV(ev.r)
      Ma == M(g, a)  E == ExpOf(g, t)  SE == SExp(g, t)
      P == IF left THEN MMul(E, Ma) ELSE MMul(Ma, E)
      S == IF left THEN MMul(SE, AbsR(g, Ma)) ELSE MMul(AbsR(g, Ma), SE)
      U == UnitT(g, FMax(LinScale(g, t), LinCoeffMax(g, a)))
      Jr == JrOf(g, t)
  IN << GroupItem(ev, "r", g, r, P, S, Dev(g, a)) >>
     \o (IF Has(ev, "Ja") THEN (IF left THEN << JItem(ev, "Ja", DM(ev.Ja), MId(DoF(g)), U, U) >>
                                         ELSE << JItemB(ev, "Ja", DM(ev.Ja), AdjMat(g, MInv(E)), U, U, AdjAbs(g, MInv(E))) >>) ELSE <<>>)
     \o (IF Has(ev, "Jt") THEN (IF left THEN << JItemB(ev, "Jt", DM(ev.Jt), MMul(AdjMat(g, MInv(Ma)), Jr), U, U, MMul(AdjAbs(g, MInv(Ma)), MAbs(Jr))) >>
                                         ELSE << JItem(ev, "Jt", DM(ev.Jt), Jr, U, U) >>) ELSE <<>>)

\* rminus: tau = log(Y^-1 X);  lminus: tau = log(X Y^-1)      (a = X, b = Y)
MinusItems(ev, left) ==
  LET g == ev.g  a == DV(ev.a)  b == DV(ev.b)  tau == DV(ev.rt)
      Ma == M(g, a)  Mb == M(g, b)  Mbi == MInv(Mb)
      X == IF left THEN MMul(Ma, Mbi) ELSE MMul(Mbi, Ma)
      S == IF left THEN MMul(AbsR(g, Ma), AbsR(g, Mbi)) ELSE MMul(AbsR(g, Mbi), AbsR(g, Ma))
      U == UnitT(g, FMax(O, FMax(LinMax(g, tau), FMax(LinCoeffMax(g, a), LinCoeffMax(g, b)))))
      Jri == MInv(JrOf(g, tau))
      JaL == MMul(Jri, AdjMat(g, Mb))
  IN IsLogItems(ev, g, X, S, tau, FAdd(Dev(g, a), Dev(g, b)))
     \o (IF Has(ev, "Ja") THEN (IF left THEN << JItemB(ev, "Ja", DM(ev.Ja), JaL, U, U, MMul(MAbs(Jri), AdjAbs(g, Mb))) >>
                                         ELSE << JItem(ev, "Ja", DM(ev.Ja), Jri, U, U) >>) ELSE <<>>)
     \o (IF Has(ev, "Jb") THEN (IF left THEN << JItemB(ev, "Jb", DM(ev.Jb), MNeg(JaL), U, U, MMul(MAbs(Jri), AdjAbs(g, Mb))) >>
                                         ELSE << JItem(ev, "Jb", DM(ev.Jb), MNeg(MInv(JlOf(g, tau))), U, U) >>) ELSE <<>>)

BetweenItems(ev) ==
  LET g == ev.g  a == DV(ev.a)  b == DV(ev.b)  r == DV(ev.r)
      Ma == M(g, a)  Mb == M(g, b)  Mai == MInv(Ma)
      P == MMul(Mai, Mb)
      U == UnitT(g, FMax(O, FMax(LinCoeffMax(g, a), LinCoeffMax(g, b))))
  IN << GroupItem(ev, "r", g, r, P, MMul(MMul(MMul(AbsR(g, Mai), AbsR(g, Ma)), AbsR(g, Mai)), AbsR(g, Mb)),
                  FAdd(Dev(g, a), Dev(g, b))) >>
     \o (IF Has(ev, "Ja") THEN << JItemB(ev, "Ja", DM(ev.Ja), MNeg(AdjMat(g, MInv(P))), U, U, AdjAbs(g, MInv(P))) >> ELSE <<>>)
     \o (IF Has(ev, "Jb") THEN << JItem(ev, "Jb", DM(ev.Jb), MId(DoF(g)), U, U) >> ELSE <<>>)

TPlusItems(ev) ==
  LET g == ev.g  t == DV(ev.t)  s == DV(ev.s)  n == DoF(g)
      tolv == [i \in 1..n |-> FAdd(FMul(FMulInt(UOf(ev), 2), FAdd(FAbs(t[i]), FAbs(s[i]))), FloorOf(ev))]
      zt == [i \in 1..n |-> [j \in 1..n |-> FloorOf(ev)]]
  IN << Item("rt", VRatio(DV(ev.rt), VAdd(t, s), tolv)), Item("rt2", VRatio(DV(ev.rt2), VSub(t, s), tolv)),
        Item("Ja", MRatioMilli(DM(ev.Ja), MId(n), zt)), Item("Jb", MRatioMilli(DM(ev.Jb), MId(n), zt)),
        Item("Jc", MRatioMilli(DM(ev.Jc), MId(n), zt)), Item("Jd", MRatioMilli(DM(ev.Jd), MNeg(MId(n)), zt)),
        \* each optional output requested alone, or none: identical value and identical Jacobian (bit patterns)
        Item("subsets", IF /\ ev.Ja1 = ev.Ja /\ ev.Jb1 = ev.Jb /\ ev.Jc1 = ev.Jc /\ ev.Jd1 = ev.Jd
                           /\ ev.rt_a = ev.rt /\ ev.rt_b = ev.rt /\ ev.rt_0 = ev.rt
                           /\ ev.rt2_a = ev.rt2 /\ ev.rt2_b = ev.rt2 /\ ev.rt2_0 = ev.rt2 THEN 0 ELSE 2000000000) >>

JacsItems(ev) ==
  LET g == ev.g  t == DV(ev.t)
      U == UnitT(g, LinScale(g, t))
      Jr == JrOf(g, t)  Jl == JlOf(g, t)
  IN << JItem(ev, "Jr", DM(ev.Jr), Jr, U, U), JItem(ev, "Jl", DM(ev.Jl), Jl, U, U),
        JItem(ev, "Jri", DM(ev.Jri), MInv(Jr), U, U), JItem(ev, "Jli", DM(ev.Jli), MInv(Jl), U, U),
        JItem(ev, "sadj", DM(ev.sadj), AdMat(g, t), U, U) >>

AdjItems(ev) ==
  LET g == ev.g  a == DV(ev.a)  U == UnitT(g, FMax(O, LinCoeffMax(g, a)))
  IN << JItemB(ev, "J", DM(ev.J), AdjMat(g, M(g, a)), U, U, AdjAbs(g, M(g, a))) >>

\* Adj(exp t) = exp(ad_t) = Jl Jr^-1
AdjExpItems(ev) ==
  LET g == ev.g  t == DV(ev.t)  U == UnitT(g, LinScale(g, t))
      E == ExpSeries(AdMat(g, t), TermsFor(g, t))
  IN << JItem(ev, "J", DM(ev.J), E, U, U), JItem(ev, "JlJri", DM(ev.JlJri), E, U, U) >>

\* Lie algebra structure: everything is exact on integer tangents
AlgebraItems(ev) ==
  LET g == ev.g  a == DV(ev.t)  b == DV(ev.s)  n == DoF(g)  N == AlgN(g)
      exact == ev.exact = 1
      H == Hat(g, a)
      s1 == FMax(O, VMaxAbs(a))  s2 == FMax(O, VMaxAbs(b))
      wp == IF exact THEN Z ELSE WPOf(ev)
      tm(k, m, sc) == [i \in 1..k |-> [j \in 1..m |-> FAdd(FMul(wp, sc), FloorOf(ev))]]
      W == IntMat(InnerW(g))
      inner == VDot(a, MVec(W, b))
      sq == VDot(a, MVec(W, a))
  IN << Item("hat", IF Len(ev.hat) = N THEN MRatioMilli(DM(ev.hat), AlgView(g, H), tm(N, N, s1)) ELSE 2000000000),
        Item("vee", VRatio(DV(ev.vee), a, [i \in 1..n |-> FAdd(FMul(wp, s1), FloorOf(ev))])),
        Item("br", VRatio(DV(ev.br), BracketV(g, a, b), [i \in 1..n |-> FAdd(FMul(wp, FMulInt(FMul(s1, s2), 8)), FloorOf(ev))])),
        Item("inner", VRatio(<<D(ev.inner)>>, <<inner>>, <<FAdd(FMul(wp, FMulInt(FMul(s1, s2), 64)), FloorOf(ev))>>)),
        Item("swn", VRatio(<<D(ev.swn)>>, <<sq>>, <<FAdd(FMul(wp, FMulInt(FMul(s1, s1), 64)), FloorOf(ev))>>)),
        Item("wn", VRatio(<<FMul(D(ev.wn), D(ev.wn))>>, <<sq>>, <<FAdd(FMul(WPOf(ev), FMulInt(FMul(s1, s1), 64)), FloorOf(ev))>>)),
        Item("W", MRatioMilli(DM(ev.W), W, tm(n, n, Z))) >>

\* Generator(i): documented basis matrix for 0 <= i < DoF, invalid_argument otherwise
GeneratorItems(ev) ==
  LET g == ev.g  i == ev.i  N == AlgN(g)
      inRange == i >= 0 /\ i < DoF(g)
  IN IF ~inRange THEN << Item("raises", IF ev.exc = "invalid_argument" THEN 0 ELSE 2000000000) >>
     ELSE IF ~Has(ev, "rm") THEN << Item("raises", 2000000000) >>
     ELSE << Item("gen", IF Len(ev.rm) = N
                         THEN MRatioMilli(DM(ev.rm), AlgView(g, Gen(g, i + 1)), [r \in 1..N |-> [c \in 1..N |-> FloorOf(ev)]])
                         ELSE 2000000000) >>

\* ---- Bundle = direct product (C11)
\* static offset tables are the prefix sums of the element sizes; element<i>() aliases the i-th segment
PrefixSums(Op(_), parts) == [i \in 1..Len(parts) |-> Off(Op, parts, i)]
LayoutItems(ev) ==
  LET g == ev.g  P == g.parts
      eq(a, b) == IF a = b THEN 0 ELSE 2000000000
  IN << Item("DimIdx", eq(ev.DimIdx, PrefixSums(Dim, P))), Item("DoFIdx", eq(ev.DoFIdx, PrefixSums(DoF, P))),
        Item("RepIdx", eq(ev.RepIdx, PrefixSums(Rep, P))), Item("TraIdx", eq(ev.TraIdx, PrefixSums(MatN, P))),
        Item("AlgIdx", eq(ev.AlgIdx, PrefixSums(AlgN, P))),
        Item("sizes", eq(<<ev.Dim, ev.DoF, ev.Rep, ev.Tra, ev.Alg>>, <<Dim(g), DoF(g), Rep(g), MatN(g), AlgN(g)>>)),
        Item("elem_off", eq(ev.elem_off, PrefixSums(Rep, P))), Item("telem_off", eq(ev.telem_off, PrefixSums(DoF, P))),
        \* element<i>() of a mutable view, of a const view and of a const bundle alias the same segments
        Item("elem_off_views", IF ev.elem_off_view = PrefixSums(Rep, P) /\ ev.elem_off_cview = PrefixSums(Rep, P) /\ ev.elem_off_const = PrefixSums(Rep, P)
                                  /\ ev.telem_off_view = PrefixSums(DoF, P) /\ ev.telem_off_cview = PrefixSums(DoF, P) THEN 0 ELSE 2000000000),
        \* Random / setRandom reach every element (a valid element that is not the identity, a tangent segment that is not zero);
        \* setIdentity / Zero / setZero reach every coefficient
        Item("random_valid", LET band == FMulInt(IF ev.sc = "f" THEN FMulInt(FPow2(-23), 100) ELSE FMulInt(FPow2(-52), 100), 2 * Len(P))
                             IN IF FinV(ev.rand) /\ FinV(ev.rand2) /\ FinV(ev.trand) /\ FinV(ev.trand2)
                                THEN (LET a == FRatioMilli(Dev(g, DV(ev.rand)), band)  b == FRatioMilli(Dev(g, DV(ev.rand2)), band) IN IF a > b THEN a ELSE b)
                                ELSE 2000000000),
        Item("random_every_element",
             LET gseg(c, i) == SubSeq(c, Off(Rep, P, i) + 1, Off(Rep, P, i) + Rep(P[i]))
                 tseg(c, i) == SubSeq(c, Off(DoF, P, i) + 1, Off(DoF, P, i) + DoF(P[i]))
                 zero(n) == [k \in 1..n |-> Z]
             IN IF \A i \in 1..Len(P) :
                     /\ gseg(ev.rand, i) # gseg(ev.ident, i) /\ gseg(ev.rand2, i) # gseg(ev.ident, i) /\ gseg(ev.rand, i) # gseg(ev.rand2, i)
                     /\ DV(tseg(ev.trand, i)) # zero(DoF(P[i])) /\ DV(tseg(ev.trand2, i)) # zero(DoF(P[i])) /\ tseg(ev.trand, i) # tseg(ev.trand2, i)
                THEN 0 ELSE 2000000000),
        Item("set_identity_zero", IF ev.setid = ev.ident /\ M(g, DV(ev.ident)) = MId(MatN(g))
                                     /\ DV(ev.tzero) = [k \in 1..DoF(g) |-> Z] /\ DV(ev.tsetzero) = [k \in 1..DoF(g) |-> Z] THEN 0 ELSE 2000000000) >>
\* each Bundle operation returns exactly what the element operations return, placed at the offsets
BelemItems(ev) ==
  LET \* the property demands EQUALITY with the element-wise operation, not a particular evaluation order: a few unit
      \* round-offs relative to the coefficient's magnitude are allowed (today's code forwards and is bit-identical)
      same(f, h) == LET a == DV(ev[f])  b == DV(ev[h]) IN
                    VRatio(a, b, [i \in 1..Len(b) |-> FAdd(FMul(FMulInt(UOf(ev), 8), FMax(O, FAbs(b[i]))), FloorOf(ev))])
  IN << Item("compose", same("compose", "e_compose")), Item("inverse", same("inverse", "e_inverse")),
        Item("between", same("between", "e_between")), Item("log", same("log", "e_log")), Item("exp", same("exp", "e_exp")),
        Item("rplus", same("rplus", "e_rplus")), Item("lminus", same("lminus", "e_lminus")),
        \* operands given as read-only views
        Item("view_operands", LET m == << same("v_compose", "e_compose"), same("v_between", "e_between"), same("v_lminus", "e_lminus"),
                                         same("v_rplus", "e_rplus"), same("v_log", "e_log"), same("v_inverse", "e_inverse"), same("v_exp", "e_exp") >>
                                  RECURSIVE Mx(_)
                                  Mx(i) == IF i > Len(m) THEN 0 ELSE IF m[i] > Mx(i + 1) THEN m[i] ELSE Mx(i + 1)
                              IN Mx(1)) >>
\* element<i>() aliases exactly the i-th segment: a write through it changes that segment and nothing else
\* (owning bundle, and a Map view of a bundle over a buffer with 4 guard cells holding 777 on each side)
BWriteItems(ev) ==
  LET g == ev.g  P == g.parts  i == ev.idx + 1
      lo == Off(Rep, P, i)  n == Rep(P[i])
      expect == [k \in 1..Rep(g) |-> IF k > lo /\ k <= lo + n THEN ev.elem[k - lo] ELSE ev.before[k]]
      guard == FInt(777)
      viewOK == /\ \A k \in 1..4 : D(ev.viewbuf[k]) = guard /\ D(ev.viewbuf[Rep(g) + 4 + k]) = guard
                /\ SubSeq(ev.viewbuf, 5, Rep(g) + 4) = expect
  IN << Item("owning", IF ev.after = expect THEN 0 ELSE 2000000000), Item("view", IF viewOK THEN 0 ELSE 2000000000) >>

\* Jacobians of a bundle are block diagonal with EXACT zeros outside the element blocks
OffBlockZero(g, m, RowOp(_), ColOp(_)) ==
  \A i \in 1..Len(m) : \A j \in 1..Len(m[1]) :
     PartOf(RowOp, g.parts, i, 1) = PartOf(ColOp, g.parts, j, 1) \/ D(m[i][j]) = Z
SquareJ == {"Ja", "Jb", "Jc", "Jd", "Jt", "J", "Jr", "Jl", "Jri", "Jli", "sadj", "JlJri"}
BundleZeroItems(ev) ==
  IF ev.g.k # "Bundle" THEN << >>
  ELSE LET g == ev.g
           sq == \A f \in SquareJ \cap DOMAIN ev : (ev.e = "act" /\ f = "Ja") \/ OffBlockZero(g, ev[f], DoF, DoF)
           actOK == ev.e # "act" \/ ((~Has(ev, "Ja") \/ OffBlockZero(g, ev.Ja, Dim, DoF)) /\ (~Has(ev, "Jp") \/ OffBlockZero(g, ev.Jp, Dim, Dim)))
       IN << Item("offblock_zero", IF sq /\ actOK THEN 0 ELSE 2000000000) >>

\* ---- aliases (C04): each documented alias returns exactly what the canonical member returns
AliasItems(ev) ==
  [i \in 1..Len(ev.names) |->
     Item(ev.names[i], IF ev.vals[i] = ev.canon[i] /\ (("own" \in DOMAIN ev /\ i <= Len(ev.own)) => ev.vals[i] = ev.own[i]) THEN 0 ELSE 2000000000)]

Items(ev) ==
  CASE ev.e = "layout"    -> LayoutItems(ev)
    [] ev.e = "alias"     -> AliasItems(ev)
    [] ev.e = "belem"     -> BelemItems(ev)
    [] ev.e = "bwrite"    -> BWriteItems(ev)
    [] ev.e = "compose"   -> ComposeItems(ev)
    [] ev.e = "inverse"   -> InverseItems(ev)
    [] ev.e = "act"       -> ActItems(ev)
    [] ev.e = "identity"  -> IdentityItems(ev)
    [] ev.e = "transform" -> TransformItems(ev)
    [] ev.e = "exp"       -> ExpItems(ev)
    [] ev.e = "log"       -> LogItems(ev)
    [] ev.e = "explog"    -> ExpLogItems(ev)
    [] ev.e = "logtwin"   -> LogTwinItems(ev)
    [] ev.e = "rplus"     -> RPlusItems(ev, FALSE)
    [] ev.e = "lplus"     -> RPlusItems(ev, TRUE)
    [] ev.e = "rminus"    -> MinusItems(ev, FALSE)
    [] ev.e = "lminus"    -> MinusItems(ev, TRUE)
    [] ev.e = "between"   -> BetweenItems(ev)
    [] ev.e = "tplus"     -> TPlusItems(ev)
    [] ev.e = "jacs"      -> JacsItems(ev)
    [] ev.e = "adj"       -> AdjItems(ev)
    [] ev.e = "adjexp"    -> AdjExpItems(ev)
    [] ev.e = "algebra"   -> AlgebraItems(ev)
    [] ev.e = "generator" -> GeneratorItems(ev)
    [] OTHER              -> << Item("unknown_event", 2000000000) >>

\* all logged numbers of an event must be finite
NumFields == {"a", "b", "t", "s", "pt", "r", "r2", "rt", "rt2", "rv", "vee", "br"}
MatFields == {"rm", "rot", "Ja", "Jb", "Jc", "Jd", "Jt", "Jp", "J", "Jr", "Jl", "Jri", "Jli", "sadj", "JlJri", "hat", "W"}
AllFinite(ev) == /\ \A f \in NumFields \cap DOMAIN ev : FinV(ev[f])
                 /\ \A f \in MatFields \cap DOMAIN ev : FinM(ev[f])

\* classification of the input for coverage / findings: floor(log2) of the rotation magnitude
\* and of the linear magnitude of the tangent involved (argument if there is one, else result)
ClassTangent(ev) == IF Has(ev, "t") THEN DV(ev.t) ELSE IF Has(ev, "rt") THEN DV(ev.rt) ELSE <<>>
ThetaClass(ev) == LET t == ClassTangent(ev) IN IF Len(t) = 0 THEN -99999 ELSE FLog2(Theta(ev.g, t))
LinClass(ev) ==
  LET t == ClassTangent(ev)
      lt == IF Len(t) = 0 THEN Z ELSE LinMax(ev.g, t)
      la == IF Has(ev, "a") THEN LinCoeffMax(ev.g, DV(ev.a)) ELSE Z
  IN FLog2(FMax(lt, la))

\* floor(log2(pi - theta)) for rotation magnitudes in (2, pi]; 99999 otherwise
GapClass(ev) ==
  LET t == ClassTangent(ev) IN
  IF Len(t) = 0 THEN 99999
  ELSE LET th == Theta(ev.g, t) IN
       IF FLt(FInt(2), th) /\ FLe(th, Pi) THEN FLog2(FSub(Pi, th)) ELSE 99999

Verdict(ev) == IF AllFinite(ev) THEN Items(ev) \o BundleZeroItems(ev) ELSE BadFinite

-----------------------------------------------------------------------------
VARIABLE l
Init == l = 1
Next == /\ l <= Len(Tr)
        /\ l' = l + 1
        /\ PrintT(ToJson(<<"V", l, ThetaClass(Tr[l]), LinClass(Tr[l]), GapClass(Tr[l]), Verdict(Tr[l])>>))
Spec == Init /\ [][Next]_l
TraceAccepted == TLCGet("stats").diameter - 1 = Len(Tr)
=============================================================================
