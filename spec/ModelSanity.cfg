INIT Init
NEXT Next
