----------------------------- MODULE ModelSanity -----------------------------
(* Quick in-spec sanity of Groups/LieMath evaluated by TLC (runs in setup and in C07). *)
EXTENDS LieMath, TLC
G1 == << [k |-> "SO2"], [k |-> "SE2"], [k |-> "SO3"], [k |-> "SE3"], [k |-> "SE_2_3"], [k |-> "SGal3"],
         [k |-> "Rn", n |-> 3], [k |-> "Bundle", parts |-> <<[k |-> "SE2"], [k |-> "Rn", n |-> 2], [k |-> "SO3"]>>] >>
T(g, s) == [i \in 1..DoF(g) |-> FInt(((i * s) % 5) - 2)]
VeeHat(g) == VeeV(g, Hat(g, T(g, 3))) = VStrict(T(g, 3))
Jacobi(g) == LET a == T(g, 1) b == T(g, 2) c == T(g, 3) IN
   VAdd(VAdd(BracketV(g, a, BracketV(g, b, c)), BracketV(g, b, BracketV(g, c, a))), BracketV(g, c, BracketV(g, a, b)))
     = VStrict([i \in 1..DoF(g) |-> Z])
AdIsBracket(g) == MVec(AdMat(g, T(g, 1)), T(g, 2)) = BracketV(g, T(g, 1), T(g, 2))
ExpClose(g) == LET t == [i \in 1..DoF(g) |-> FDivInt(FInt(((i * 3) % 5) - 2), 4)]
                   A == Hat(g, t)
               IN FLe(MMaxAbs(MSub(ExpSeries(A, 60), ExpSS(A, 4, 40))), FPow2(-150))
ASSUME \A i \in 1..Len(G1) : PrintT(<<G1[i].k, VeeHat(G1[i]), Jacobi(G1[i]), AdIsBracket(G1[i]), ExpClose(G1[i])>>)
VARIABLE x
Init == x = 0
Next == UNCHANGED x
=============================================================================
