SPECIFICATION Spec
CONSTANTS R = 4
 Eps = 100
 Accept = 190
 SmallExp = 25
 Renorm = TRUE
INVARIANT Bounded
INVARIANT Accepted
VIEW View
CHECK_DEADLOCK FALSE
