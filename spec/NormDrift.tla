------------------------------ MODULE NormDrift ------------------------------
(***************************************************************************)
(* C08: validity under arbitrarily long histories.                         *)
(* Integer model of the deviation d = (|q|^2 - 1) / 2^-52 of the rotation  *)
(* coefficients of each register under every operation that produces an   *)
(* element, with nondeterministic rounding r \in -R..R per operation.      *)
(* compose renormalises when |d| > Eps (= 100 units = Constants::eps) with *)
(* the degree-2 polynomial 1/sqrt(x) whose residual is O(d^3 u^2), i.e.    *)
(* below one unit for |d| <= Eps + 2R.  The state space is finite, so the  *)
(* TLC fixpoint covers histories of UNBOUNDED length: the invariant        *)
(* |d| <= Eps + R < Accept holds after every step of every history.        *)
(* With Renorm = FALSE the invariant fails (repeated squaring); TLC's      *)
(* counterexample is the shortest adversarial history and is replayed on   *)
(* the real code, as are the boundary states.  R is an ASSUMPTION about    *)
(* the implementation; the trace validation measures the actual per-step   *)
(* rounding on fully logged steps and rejects the MODEL (not manif) when   *)
(* it is exceeded.                                                         *)
(***************************************************************************)
EXTENDS Integers, Sequences, TLC, Json

CONSTANTS R,        \* rounding envelope per operation, in units of 2^-52
          Eps,      \* renormalisation threshold on |d| (Constants<double>::eps / 2^-52 = 100)
          Accept,   \* acceptance threshold of the constructors on |d| (|norm-1|<eps <=> |d| < about 2 Eps)
          SmallExp, \* largest deviation of exp's small-angle branch: theta^2/4 < eps/4
          Renorm    \* TRUE: compose renormalises (the code); FALSE: negative control

VARIABLES dx, dy, hist
vars == <<dx, dy, hist>>
Abs(x) == IF x < 0 THEN -x ELSE x
Rnd == -R..R

Normalised == Rnd                                   \* exp (generic branch), Random, cast, normalize, constructors from angles
ExpAny == Rnd \cup (0..(SmallExp + R))              \* exp including the small-angle branch q = (w/2, 1)

\* possible deviations of a product: |q1 q2|^2 = |q1|^2 |q2|^2 (first order: a + b) plus rounding; when the
\* result leaves the band, the polynomial renormalisation brings it back to within rounding of 0
Comp(a, b) == { IF Renorm /\ Abs(a + b + r) > Eps THEN r2 ELSE a + b + r : r \in Rnd, r2 \in Rnd }

Init == dx \in Normalised /\ dy \in Normalised /\ hist = << >>
Step(op, nx, ny) == dx' = nx /\ dy' = ny /\ hist' = IF Len(hist) < 12 THEN Append(hist, op) ELSE hist
Next ==
  \/ \E n \in Comp(dx, dy) : Step("x=x*y", n, dy)
  \/ \E n \in Comp(dx, dx) : Step("x=x*x", n, dy)
  \/ \E n \in Comp(dy, dx) : Step("y=y*x", dx, n)
  \* inverse: conjugation keeps the norm exactly (quaternion groups); SO2/SE2 rebuild the complex number
  \* from the negated angle, which normalises it
  \/ \E n \in {dx} \cup Normalised : Step("x=inv(x)", n, dy)
  \/ \E i \in {dx} \cup Normalised : \E n \in Comp(i, dy) : Step("x=between(x,y)", n, dy)
  \/ \E e \in ExpAny : \E n \in Comp(dx, e) : Step("x+=t", n, dy)
  \/ \E e \in ExpAny : Step("y=exp(t)", dx, e)
  \/ \E e \in Normalised : Step("x=random/cast/normalize", e, dy)
Spec == Init /\ [][Next]_vars

Bounded == Abs(dx) <= Eps + R /\ Abs(dy) <= Eps + R
Accepted == Abs(dx) < Accept /\ Abs(dy) < Accept
View == <<dx, dy>>            \* hist is an observation variable only
=============================================================================
