---------------------------- MODULE NormDriftInd ----------------------------
(* Typed copy of the transition relation of NormDrift.tla (without the observation variable hist) for Apalache:
   Bounded is an INDUCTIVE invariant, i.e. Init => Bounded and Bounded /\ Next => Bounded', for every value of
   the registers -- the symbolic counterpart of TLC's explicit fixpoint. *)
EXTENDS Integers
R == 4
Eps == 100
SmallExp == 25
VARIABLES
  \* @type: Int;
  dx,
  \* @type: Int;
  dy
Abs(x) == IF x < 0 THEN -x ELSE x
Rnd == (-R)..R
Normalised == Rnd
ExpAny == Rnd \union (0..(SmallExp + R))
Comp(a, b) == { IF Abs(a + b + r) > Eps THEN r2 ELSE a + b + r : r \in Rnd, r2 \in Rnd }
Init == dx \in Normalised /\ dy \in Normalised
Next ==
  \/ \E n \in Comp(dx, dy) : dx' = n /\ dy' = dy
  \/ \E n \in Comp(dx, dx) : dx' = n /\ dy' = dy
  \/ \E n \in Comp(dy, dx) : dy' = n /\ dx' = dx
  \/ \E n \in {dx} \union Normalised : dx' = n /\ dy' = dy
  \/ \E i \in {dx} \union Normalised : \E n \in Comp(i, dy) : dx' = n /\ dy' = dy
  \/ \E e \in ExpAny : \E n \in Comp(dx, e) : dx' = n /\ dy' = dy
  \/ \E e \in ExpAny : dy' = e /\ dx' = dx
  \/ \E e \in Normalised : dx' = e /\ dy' = dy
Bounded == Abs(dx) <= Eps + R /\ Abs(dy) <= Eps + R
\* induction step starts from ANY state satisfying the invariant
IndInit == dx \in (-(Eps + R))..(Eps + R) /\ dy \in (-(Eps + R))..(Eps + R)
=============================================================================
