SPECIFICATION Spec
CONSTANTS R = 4
 Eps = 100
 Accept = 190
 SmallExp = 25
 Renorm = FALSE
INVARIANT Bounded
INVARIANT Accepted
VIEW View
CHECK_DEADLOCK FALSE
