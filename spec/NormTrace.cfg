SPECIFICATION NSpec
POSTCONDITION TraceAccepted
CHECK_DEADLOCK FALSE
