------------------------------ MODULE NormTrace ------------------------------
(* C08 conformance: every recorded step of a long history leaves the rotation coefficients finite and
   unit-norm within the library's own acceptance threshold |norm - 1| < eps (so an assertion-enabled
   constructor accepts them); no exception event; the rounding envelope R assumed by NormDrift.tla is
   measured on the fully logged steps (item "model_R": a model assumption, not a verdict about manif). *)
EXTENDS ManifTrace

EpsOf(ev) == IF ev.sc = "f" THEN FMulInt(FPow2(-23), 100) ELSE FMulInt(FPow2(-52), 100)
UnitOf(ev) == IF ev.sc = "f" THEN FPow2(-23) ELSE FPow2(-52)
\* |norm - 1| < eps  <=>  (1-eps)^2 < |q|^2 < (1+eps)^2 ; the tighter side is 1 - |q|^2 < 2 eps - eps^2
Band(ev) == FSub(FMulInt(EpsOf(ev), 2), FMul(EpsOf(ev), EpsOf(ev)))
RModel == 6     \* units; NormDrift.cfg uses R = 4 for one product, in-place/compound steps (between, +=) do two

WItems(ev) ==
  IF Len(ev.rot) = 0 THEN << Item("finite", IF ev.allfinite = 1 THEN 0 ELSE 2000000000) >>
  ELSE LET q == DV(ev.rot)
           d == FSub(VDot(q, q), O)                       \* exact deviation of the squared norm
           du == FDiv(d, UnitOf(ev))                      \* in units
           self == D(ev.dself)
       IN << Item("finite", IF ev.allfinite = 1 /\ FinV(ev.rot) THEN 0 ELSE 2000000000),
             Item("valid", FRatioMilli(FAbs(d), Band(ev))),
             Item("selfd", FRatioMilli(FAbs(FSub(self, du)), O)) >>
          \o (IF ev.composed = 1 /\ FLe(FAbs(FAdd(D(ev.d1), D(ev.d2))), FInt(90))
              THEN << Item("model_R", LET full == FRatioMilli(FAbs(FSub(du, FAdd(D(ev.d1), D(ev.d2)))), FInt(RModel))
                                         inv0 == FRatioMilli(FAbs(FSub(du, D(ev.d2))), FInt(RModel))     \* between with a normalising inverse
                                     IN IF ev.op = "x=between(x,y)" /\ inv0 < full THEN inv0 ELSE full) >> ELSE << >>)
SumItems(ev) ==
  << Item("valid", FRatioMilli(FMax(FAbs(D(ev.dmin)), FAbs(D(ev.dmax))), FDiv(Band(ev), UnitOf(ev)))),
     Item("finite", IF ev.nonfinite = 0 THEN 0 ELSE 2000000000) >>
NVerdict(ev) == CASE ev.e = "w" -> WItems(ev) [] ev.e = "wsum" -> SumItems(ev) [] ev.e = "wstart" -> << >>
                  [] ev.e = "wexc" -> << Item("exception", 2000000000) >>
                  [] OTHER -> << Item("unknown_event", 2000000000) >>
NNext == /\ l <= Len(Tr) /\ l' = l + 1
         /\ PrintT(ToJson(<<"V", l, -99999, -99999, 99999, NVerdict(Tr[l])>>))
NSpec == Init /\ [][NNext]_l
=============================================================================
