SPECIFICATION Spec
CONSTANTS T = 3
 MaxLen = 3
 Budget = 5
 Protocol = "cxx11"
 Statics <- StaticsManif
 Deps <- DepsManif
 ConstOps <- ConstOpsManif
 ExpectCycle = FALSE
INVARIANT TypeOK
INVARIANT I1
INVARIANT I2
INVARIANT I3
INVARIANT Published
INVARIANT OneInitialiser
PROPERTY SharedUntouched
PROPERTY L
CHECK_DEADLOCK TRUE
