----------------------------- MODULE StaticInit -----------------------------
(***************************************************************************)
(* C14: first use of lazily initialised function-local statics by several  *)
(* threads.                                                                *)
(*                                                                         *)
(* manif's static helpers (Identity, Zero, Generator, InnerWeights and the *)
(* constant Jacobians / adjoints of the commutative groups) all have the   *)
(* shape                                                                   *)
(*        static const T x = <initialiser>;  return x;                     *)
(* and some initialisers call other such functions:                        *)
(*   Identity::I -> setIdentity::zero -> Zero::t       (a chain)           *)
(*   InnerWeights::W -> Generator(r), Generator(c) ... (a fan, re-reads)   *)
(*   adj / rjac / ljac / smallAdj of SO2 and Rn        (leaves)            *)
(* (the table the constants below were written from is StaticInitData.json,*)
(* which tools/static_scan.py re-extracts from the headers on every run).  *)
(*                                                                         *)
(* The model: T threads, each executing a program of at most MaxLen calls  *)
(* (a call of the function owning a static, or a const operation on a      *)
(* shared object).  Every access to shared memory is one step: the guard   *)
(* test/acquire, the two halves of the (non-atomic) write of the object,   *)
(* the guard release, the copy that is returned.  Thread-local work is     *)
(* folded into the neighbouring shared access.  Protocol selects           *)
(*   "cxx11"        the guard of C++11 [stmt.dcl]/4: one initialiser, every*)
(*                  other thread blocks until the guard says done;         *)
(*   "flag"         hand rolled  static bool init; static T x;             *)
(*                  if (!init) { x = compute(); init = true; } return x;   *)
(*   "assign_after" static T x; x = compute(); return x;                   *)
(* The last two are the defects the property is about; TLC must reject     *)
(* them (negative controls), and accept "cxx11".                           *)
(***************************************************************************)
EXTENDS Naturals, Sequences, FiniteSets, TLC, Json

CONSTANTS T,          \* number of threads
          MaxLen,     \* longest program of one thread
          Budget,     \* total number of calls of all threads together
          Protocol,
          Statics,    \* names of the lazily initialised statics
          Deps,       \* Deps[s]: sequence of statics whose owners the initialiser of s calls, in order
          ConstOps,   \* const operations on the shared object (no static involved)
          ExpectCycle \* TRUE only in the configuration that demonstrates the deadlock of a cyclic table

ASSUME Protocol \in {"cxx11", "flag", "assign_after"}
ASSUME T \in 1..3 /\ MaxLen \in 1..3 /\ Budget \in 1..9

Threads == 1..T
Ops == Statics \cup ConstOps

-----------------------------------------------------------------------------
(* the tables (substituted for Statics/Deps in the cfg files) *)
StaticsManif == {"Identity", "SetIdZero", "TangentZero", "InnerW", "Gen0", "Gen1", "Leaf"}
DepsManif == [s \in StaticsManif |->
                CASE s = "Identity"  -> <<"SetIdZero">>
                  [] s = "SetIdZero" -> <<"TangentZero">>
                  [] s = "InnerW"    -> <<"Gen0", "Gen1", "Gen0">>   \* computeW reads each generator repeatedly
                  [] OTHER           -> << >>]
ConstOpsManif == {"constX"}
\* a table that must deadlock (A needs B needs A): shows that the liveness property can fail
StaticsCyclic == {"A", "B"}
DepsCyclic == [s \in StaticsCyclic |-> IF s = "A" THEN <<"B">> ELSE <<"A">>]

DepSet(s) == {Deps[s][i] : i \in DOMAIN Deps[s]}
RECURSIVE Reach(_, _)
Reach(S, n) == IF n = 0 THEN S ELSE Reach(S \cup UNION {DepSet(s) : s \in S}, n - 1)
Below(s) == Reach(DepSet(s), Cardinality(Statics))
Acyclic == \A s \in Statics : s \notin Below(s)
ASSUME \A s \in Statics : DepSet(s) \subseteq Statics
ASSUME Acyclic \/ ExpectCycle

\* what TLC reports to the driver: the constants this run was made with (compared with StaticInitData.json)
ASSUME PrintT(ToJson([model |-> "StaticInit", protocol |-> Protocol, statics |-> Statics,
                      deps |-> [s \in Statics |-> Deps[s]], acyclic |-> Acyclic]))

-----------------------------------------------------------------------------
(* values: <<name, <<values the constructor read from its dependencies>> >>;
   raw memory is <<"garbage", <<>>>>, a half written object <<"half", <<>>>> *)
Garbage == <<"garbage", << >> >>
Half    == <<"half", << >> >>
Mk(s, acc) == <<s, acc>>
RECURSIVE Val(_)
Val(s) == Mk(s, [i \in DOMAIN Deps[s] |-> Val(Deps[s][i])])     \* the value a single thread obtains
SharedX == <<"X", << >> >>                                      \* the shared const object
ConstVal(op, x) == Mk(op, <<x>>)
Expected(op) == IF op \in ConstOps THEN ConstVal(op, SharedX) ELSE Val(op)
RECURSIVE Bad(_)
Bad(v) == v[1] \in {"garbage", "half"} \/ \E i \in DOMAIN v[2] : Bad(v[2][i])

-----------------------------------------------------------------------------
(* programs: all sequences of 0..MaxLen operations, Budget calls in total.  All threads run the same
   code, so of the tuples of programs that differ only by a permutation of the threads one is explored (the
   one sorted by Key; no SYMMETRY set, which TLC cannot combine with the liveness property), and --
   because statics that are unrelated by Deps share no memory -- only programs whose statics belong to
   one connected component of the dependency graph (plus const operations) *)
RECURSIVE SeqsUpTo(_, _)
SeqsUpTo(S, n) == IF n = 0 THEN {<< >>}
                  ELSE LET P == SeqsUpTo(S, n - 1) IN P \cup {Append(p, x) : p \in {q \in P : Len(q) = n - 1}, x \in S}
Related(a, b) == a = b \/ a \in Below(b) \/ b \in Below(a)
Component(c) == LET RECURSIVE Grow(_, _)
                    Grow(S, n) == IF n = 0 THEN S
                                  ELSE Grow(S \cup {x \in Statics : \E y \in S : Related(x, y)}, n - 1)
                IN Grow({c}, Cardinality(Statics))
Components == {Component(c) : c \in Statics}
RECURSIVE SetToSeq(_)
SetToSeq(S) == IF S = {} THEN << >> ELSE LET x == CHOOSE x \in S : TRUE IN <<x>> \o SetToSeq(S \ {x})
OpOrder == SetToSeq(Ops)                                   \* some fixed total order of the operations
OpIdx == [o \in Ops |-> CHOOSE i \in 1..Len(OpOrder) : OpOrder[i] = o]
Radix == Cardinality(Ops) + 1
RECURSIVE Key(_)                                           \* injective on programs
Key(p) == IF p = << >> THEN 0 ELSE OpIdx[p[Len(p)]] + Radix * Key(SubSeq(p, 1, Len(p) - 1))
\* sorted tuples of k programs over the operations of component C using at most b calls
RECURSIVE Tuples(_, _, _)
Tuples(C, k, b) ==
  IF k = 0 THEN {<< >>}
  ELSE UNION { { <<p>> \o q : q \in { r \in Tuples(C, k - 1, b - Len(p)) : r = << >> \/ Key(p) <= Key(r[1]) } }
               : p \in { x \in SeqsUpTo(C \cup ConstOps, MaxLen) : Len(x) <= b } }
Programs == { p \in UNION { Tuples(C, T, Budget) : C \in Components } : \E t \in Threads : p[t] # << >> }

-----------------------------------------------------------------------------
VARIABLES guard,    \* per static: [st |-> "uninit" | "init" (by thread by) | "done", by]
          value,    \* per static: the memory of the object
          made,     \* per static: how many times it has been constructed
          shared,   \* the shared const object the const operations read
          prog,     \* per thread: its program (never changes)
          ip,       \* per thread: index of the call in progress / next
          stack,    \* per thread: frames [s, pc, i, acc] of the nested calls in progress
          results   \* per thread: values returned by its completed top-level calls
vars == <<guard, value, made, shared, prog, ip, stack, results>>

GDone == [st |-> "done", by |-> 0]
Frame(s, pc) == [s |-> s, pc |-> pc, i |-> 1, acc |-> << >>]
Top(t) == stack[t][Len(stack[t])]
SetTop(t, f) == [stack EXCEPT ![t] = [@ EXCEPT ![Len(@)] = f]]
Push(t, f) == [stack EXCEPT ![t] = Append(@, f)]

Init == /\ guard = [s \in Statics |-> [st |-> "uninit", by |-> 0]]
        /\ value = [s \in Statics |-> Garbage]
        /\ made = [s \in Statics |-> 0]
        /\ shared = SharedX
        /\ prog \in Programs
        /\ ip = [t \in Threads |-> 1]
        /\ stack = [t \in Threads |-> << >>]
        /\ results = [t \in Threads |-> << >>]

\* thread t calls the function that owns static s: the first shared access is the guard
Enter(t, s) ==
  \/ /\ Protocol = "cxx11" /\ guard[s].st = "done"
     /\ stack' = Push(t, Frame(s, "read")) /\ UNCHANGED <<guard, made>>
  \/ /\ Protocol = "cxx11" /\ guard[s].st = "uninit"          \* __cxa_guard_acquire returns 1
     /\ guard' = [guard EXCEPT ![s] = [st |-> "init", by |-> t]]
     /\ stack' = Push(t, Frame(s, "deps")) /\ UNCHANGED made
     \* guard[s].st = "init": blocked until the initialiser releases the guard (also when the
     \* initialiser is t itself: recursive initialisation never completes)
  \/ /\ Protocol = "flag"                                  \* if (!init) ...   (plain read)
     /\ stack' = Push(t, Frame(s, IF guard[s].st = "done" THEN "read" ELSE "deps"))
     /\ UNCHANGED <<guard, made>>
  \/ /\ Protocol = "assign_after"                          \* static T x;  (properly guarded, trivial)
     /\ guard' = [guard EXCEPT ![s] = GDone]
     /\ made' = [made EXCEPT ![s] = IF guard[s].st = "uninit" THEN @ + 1 ELSE @]
     /\ stack' = Push(t, Frame(s, "deps"))

Call(t) == /\ stack[t] = << >> /\ ip[t] <= Len(prog[t])
           /\ LET op == prog[t][ip[t]] IN
              IF op \in ConstOps
              THEN /\ results' = [results EXCEPT ![t] = Append(@, ConstVal(op, shared))]
                   /\ ip' = [ip EXCEPT ![t] = @ + 1]
                   /\ UNCHANGED <<guard, value, made, shared, prog, stack>>
              ELSE /\ Enter(t, op)
                   /\ UNCHANGED <<value, shared, prog, ip, results>>

\* the initialiser calls the owners of its dependencies in order, then starts writing the object
DepsStep(t) == /\ stack[t] # << >> /\ Top(t).pc = "deps"
               /\ LET f == Top(t) IN
                  IF f.i <= Len(Deps[f.s])
                  THEN Enter(t, Deps[f.s][f.i]) /\ UNCHANGED <<value, shared, prog, ip, results>>
                  ELSE /\ value' = [value EXCEPT ![f.s] = Half]
                       /\ made' = [made EXCEPT ![f.s] = IF Protocol = "assign_after" THEN @ ELSE @ + 1]
                       /\ stack' = SetTop(t, [f EXCEPT !.pc = "w2"])
                       /\ UNCHANGED <<guard, shared, prog, ip, results>>

Write2(t) == /\ stack[t] # << >> /\ Top(t).pc = "w2"
             /\ LET f == Top(t) IN
                /\ value' = [value EXCEPT ![f.s] = Mk(f.s, f.acc)]
                /\ stack' = SetTop(t, [f EXCEPT !.pc = IF Protocol = "assign_after" THEN "read" ELSE "publish"])
             /\ UNCHANGED <<guard, made, shared, prog, ip, results>>

Publish(t) == /\ stack[t] # << >> /\ Top(t).pc = "publish"
              /\ guard' = [guard EXCEPT ![Top(t).s] = GDone]
              /\ stack' = SetTop(t, [Top(t) EXCEPT !.pc = "read"])
              /\ UNCHANGED <<value, made, shared, prog, ip, results>>

\* return x;  -- the copy handed to the caller
Read(t) == /\ stack[t] # << >> /\ Top(t).pc = "read"
           /\ LET n == Len(stack[t])  ret == value[Top(t).s] IN
              IF n = 1
              THEN /\ results' = [results EXCEPT ![t] = Append(@, ret)]
                   /\ ip' = [ip EXCEPT ![t] = @ + 1]
                   /\ stack' = [stack EXCEPT ![t] = << >>]
              ELSE /\ LET par == stack[t][n - 1]
                           par2 == [par EXCEPT !.acc = Append(par.acc, ret), !.i = par.i + 1]
                       IN stack' = [stack EXCEPT ![t] = Append(SubSeq(stack[t], 1, n - 2), par2)]
                   /\ UNCHANGED <<results, ip>>
           /\ UNCHANGED <<guard, value, made, shared, prog>>

Step(t) == Call(t) \/ DepsStep(t) \/ Write2(t) \/ Publish(t) \/ Read(t)
Done(t) == stack[t] = << >> /\ ip[t] > Len(prog[t])
AllDone == \A t \in Threads : Done(t)
Finished == AllDone /\ UNCHANGED vars              \* so that only a genuine deadlock is a deadlock
Next == (\E t \in Threads : Step(t)) \/ Finished
Spec == Init /\ [][Next]_vars /\ \A t \in Threads : WF_vars(Step(t))

-----------------------------------------------------------------------------
(* properties *)
TypeOK == /\ \A s \in Statics : guard[s] \in [st : {"uninit", "done"}, by : {0}] \cup [st : {"init"}, by : Threads]
          /\ \A t \in Threads : ip[t] \in 1..(Len(prog[t]) + 1) /\ Len(results[t]) = ip[t] - 1
\* (I1) every static is constructed at most once
I1 == \A s \in Statics : made[s] <= 1
\* (I2) nobody ever reads a static before its construction completed: no returned copy -- to the program
\* or to an initialiser that builds its own object from it -- is raw or half written memory
I2 == \A t \in Threads : /\ \A i \in DOMAIN results[t] : ~Bad(results[t][i])
                         /\ \A k \in DOMAIN stack[t] : \A j \in DOMAIN stack[t][k].acc : ~Bad(stack[t][k].acc[j])
\* (I3) every thread obtains what a single thread obtains
I3 == \A t \in Threads : \A i \in DOMAIN results[t] : results[t][i] = Expected(prog[t][i])
\* the protocol's own invariants ("cxx11" only)
Published == Protocol = "cxx11" =>
               \A s \in Statics : /\ guard[s].st = "done" => value[s] = Val(s) /\ made[s] = 1
                                  /\ guard[s].st = "uninit" => value[s] = Garbage /\ made[s] = 0
OneInitialiser == Protocol = "cxx11" =>
               \A s \in Statics : Cardinality({t \in Threads : \E k \in DOMAIN stack[t] :
                                      stack[t][k].s = s /\ stack[t][k].pc # "read"}) <= 1
\* const operations (and everything else) leave the shared object alone
SharedUntouched == [][shared' = shared]_vars
\* (L) every thread terminates
L == <>[]AllDone
=============================================================================
