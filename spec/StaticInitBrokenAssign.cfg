SPECIFICATION Spec
CONSTANTS T = 3
 MaxLen = 3
 Budget = 5
 Protocol = "assign_after"
 Statics <- StaticsManif
 Deps <- DepsManif
 ConstOps <- ConstOpsManif
 ExpectCycle = FALSE
INVARIANT TypeOK
INVARIANT I1
INVARIANT I2
INVARIANT I3
PROPERTY SharedUntouched
CHECK_DEADLOCK TRUE
