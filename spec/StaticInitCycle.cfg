SPECIFICATION Spec
CONSTANTS T = 2
 MaxLen = 1
 Budget = 2
 Protocol = "cxx11"
 Statics <- StaticsCyclic
 Deps <- DepsCyclic
 ConstOps <- ConstOpsManif
 ExpectCycle = TRUE
INVARIANT TypeOK
INVARIANT I1
PROPERTY L
CHECK_DEADLOCK FALSE
