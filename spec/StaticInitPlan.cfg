INIT Init
NEXT Next
CONSTANT NThreads = 8
INVARIANT Emit
CHECK_DEADLOCK FALSE
