--------------------------- MODULE StaticInitPlan ---------------------------
(***************************************************************************)
(* C14 schedule plans for the conformance runs (harness/rec_threads.cpp).  *)
(*                                                                         *)
(* StaticInit.tla decides the initialisation protocol on an abstract table *)
(* (a chain, a fan, a leaf).  This module instantiates the same table for  *)
(* the concrete groups of the operation catalogue and enumerates, for      *)
(* every lazily initialised static c of every group, the schedules that    *)
(* make c the contended one:                                               *)
(*   direct      all threads call the owner of c first;                    *)
(*   late        every second thread performs a const operation first;     *)
(*   ancestors   the threads enter through c and through every static      *)
(*               whose initialiser (transitively) needs c;                 *)
(*   deps_first  every second thread has already used a dependency of c;   *)
(*   siblings    c and another static of the group in opposite orders.     *)
(* A plan names, per thread, at most three operations of the catalogue.    *)
(* TLC prints one JSON line per static of the instantiated table (compared *)
(* by tools/checks/c14.py with what tools/static_scan.py extracts from the *)
(* headers, and mapped onto the constants of StaticInit.tla) and one line  *)
(* per plan.                                                               *)
(***************************************************************************)
EXTENDS Naturals, Sequences, FiniteSets, TLC, Json

CONSTANT NThreads

\* ngen: number of generators held in function-local statics (Rn builds them on the fly)
\* comm: commutative group whose adj/rjac/ljac/smallAdj are function-local static constants
\* ownW: InnerWeights is a hard coded table (no call of Generator in the initialiser)
Groups == << [g |-> "SO2",    dof |-> 1,  ngen |-> 1,  comm |-> TRUE,  ownW |-> FALSE],
             [g |-> "SE2",    dof |-> 3,  ngen |-> 3,  comm |-> FALSE, ownW |-> TRUE],
             [g |-> "SO3",    dof |-> 3,  ngen |-> 3,  comm |-> FALSE, ownW |-> FALSE],
             [g |-> "SE3",    dof |-> 6,  ngen |-> 6,  comm |-> FALSE, ownW |-> FALSE],
             [g |-> "SE_2_3", dof |-> 9,  ngen |-> 9,  comm |-> FALSE, ownW |-> FALSE],
             [g |-> "SGal3",  dof |-> 10, ngen |-> 10, comm |-> FALSE, ownW |-> FALSE],
             [g |-> "R3",     dof |-> 3,  ngen |-> 0,  comm |-> TRUE,  ownW |-> FALSE] >>

St(G, kind, i) == [g |-> G.g, kind |-> kind, i |-> i]
Gens(G) == [i \in 1..G.ngen |-> St(G, "E", i - 1)]
StaticsOf(G) == << St(G, "I", 0), St(G, "zero", 0), St(G, "t", 0), St(G, "W", 0) >> \o Gens(G)
                \o (IF G.comm THEN << St(G, "adj", 0), St(G, "Jr", 0), St(G, "Jl", 0), St(G, "smallAdj", 0) >> ELSE << >>)
Name(s) == s.g \o "." \o (IF s.kind = "E" THEN "E" \o ToString(s.i) ELSE s.kind)
\* the operation of the catalogue that owns the static
OpOf(s) == s.g \o "." \o
  (CASE s.kind = "I" -> "Identity" [] s.kind = "zero" -> "SetIdentity" [] s.kind = "t" -> "Zero"
     [] s.kind = "W" -> "InnerWeights" [] s.kind = "E" -> "Generator." \o ToString(s.i)
     [] s.kind = "adj" -> "adj" [] s.kind = "Jr" -> "rjac" [] s.kind = "Jl" -> "ljac"
     [] s.kind = "smallAdj" -> "smallAdj")
DepsOf(G, s) == CASE s.kind = "I" -> << St(G, "zero", 0) >>
                  [] s.kind = "zero" -> << St(G, "t", 0) >>
                  [] s.kind = "W" -> IF G.ownW THEN << >> ELSE Gens(G)
                  [] OTHER -> << >>
\* the static of StaticInit.tla that stands for it
ClassOf(G, s) == CASE s.kind = "I" -> "Identity" [] s.kind = "zero" -> "SetIdZero" [] s.kind = "t" -> "TangentZero"
                   [] s.kind = "W" -> IF DepsOf(G, s) = << >> THEN "Leaf" ELSE "InnerW"
                   [] s.kind = "E" -> "Gen" [] OTHER -> "Leaf"
\* operations that touch no static: const operations on the shared X, Y, t, p
ConstOpsOf(G) == [i \in 1..5 |-> G.g \o "." \o <<"inverse", "log", "compose", "exp", "act">>[i]]
                 \o (IF G.comm THEN << >> ELSE [i \in 1..4 |-> G.g \o "." \o <<"adj", "rjac", "ljac", "smallAdj">>[i]])
                 \o (IF G.ngen = 0 THEN [i \in 1..G.dof |-> G.g \o ".Generator." \o ToString(i - 1)] ELSE << >>)

Range(f) == {f[i] : i \in DOMAIN f}
Parents(G, s) == {x \in Range(StaticsOf(G)) : s \in Range(DepsOf(G, x))}
RECURSIVE Anc(_, _, _)
Anc(G, S, n) == IF n = 0 THEN S ELSE Anc(G, S \cup UNION {Parents(G, x) : x \in S}, n - 1)
Ancestors(G, s) == Anc(G, Parents(G, s), 3)
\* ancestors first-to-last in the order of StaticsOf (deterministic)
AncSeq(G, s) == SelectSeq(StaticsOf(G), LAMBDA x : x \in Ancestors(G, s))
Cyc(seq, k) == seq[((k - 1) % Len(seq)) + 1]
IndexOf(seq, x) == CHOOSE i \in DOMAIN seq : seq[i] = x

Threads == 1..NThreads
PlansOf(G, c) ==
  LET op == OpOf(c)   F == ConstOpsOf(G)   S == StaticsOf(G)   ci == IndexOf(S, c)
      sib == Cyc(S, ci + 1)   anc == <<c>> \o AncSeq(G, c)   dp == DepsOf(G, c)
      P(shape, th) == [kind |-> "plan", contended |-> Name(c), g |-> G.g, shape |-> shape, threads |-> th]
  IN { P("direct", [k \in Threads |-> << op, Cyc(F, k + ci), Cyc(F, k + ci + 4) >>]),
       P("late",   [k \in Threads |-> IF k % 2 = 0 THEN << Cyc(F, k + ci), op, Cyc(F, k + ci + 5) >>
                                      ELSE << op, Cyc(F, k + ci + 2), Cyc(F, k + ci + 7) >>]),
       P("siblings", [k \in Threads |-> IF k % 2 = 0 THEN << OpOf(sib), op, Cyc(F, k + ci + 1) >>
                                        ELSE << op, OpOf(sib), Cyc(F, k + ci + 3) >>]) }
     \cup (IF Len(anc) > 1
           THEN { P("ancestors", [k \in Threads |-> << OpOf(Cyc(anc, k)), op, Cyc(F, k + ci + 6) >>]) } ELSE {})
     \cup (IF Len(dp) > 0
           THEN { P("deps_first", [k \in Threads |-> IF k % 2 = 0 THEN << OpOf(Cyc(dp, k \div 2)), op, Cyc(F, k + ci) >>
                                                     ELSE << op, Cyc(F, k + ci + 2), OpOf(Cyc(dp, k)) >>]) } ELSE {})

Table == UNION { { [kind |-> "static", static |-> Name(s), g |-> Groups[j].g, op |-> OpOf(s), class |-> ClassOf(Groups[j], s),
                    deps |-> [i \in DOMAIN DepsOf(Groups[j], s) |-> Name(DepsOf(Groups[j], s)[i])]]
                   : s \in Range(StaticsOf(Groups[j])) } : j \in DOMAIN Groups }
Catalogue == UNION { { [kind |-> "constop", op |-> o, g |-> Groups[j].g] : o \in Range(ConstOpsOf(Groups[j])) } : j \in DOMAIN Groups }
Plans == UNION { UNION { PlansOf(Groups[j], s) : s \in Range(StaticsOf(Groups[j])) } : j \in DOMAIN Groups }

\* every static is the contended one in some plan, and in one where all threads go for it first
ASSUME \A j \in DOMAIN Groups : \A s \in Range(StaticsOf(Groups[j])) :
          \E p \in Plans : p.contended = Name(s) /\ \A k \in Threads : p.threads[k][1] = OpOf(s)
ASSUME \A p \in Plans : \A k \in Threads : Len(p.threads[k]) \in 1..3

VARIABLE cell
Init == cell \in Table \cup Catalogue \cup Plans
Next == UNCHANGED cell
Emit == PrintT(ToJson(cell))
=============================================================================
