-------------------------- MODULE StaticInitTrace --------------------------
(***************************************************************************)
(* C14 conformance: the events recorded by harness/rec_threads.cpp (one    *)
(* process per schedule plan of StaticInitPlan.tla, threads released from  *)
(* a barrier) must be explained by StaticInit.tla with Protocol = "cxx11": *)
(*                                                                         *)
(*  "op"   one event per (thread, operation).  In the model every call     *)
(*         returns Expected(op), the value a single thread obtains (I3),   *)
(*         whatever the schedule.  The recorded counterpart: the result    *)
(*         bits of the thread ("out") equal the bits of the same operation *)
(*         in a fresh single-threaded process of the same binary ("ref")   *)
(*         and the bits obtained by the main thread after join ("post").   *)
(*  "race" a ThreadSanitizer report of the run.  No action of the model    *)
(*         writes memory that another thread may access unordered (the     *)
(*         object is written only between guard acquire and release, and   *)
(*         read only after "done"), so a race event is never allowed.      *)
(*  "crash" the process died, hung (recursive initialisation) or lost      *)
(*         events: never allowed.                                          *)
(*  "static", "static_gone", "static_cycle", "scan_problem",               *)
(*  "model_mismatch": the header scanner found a static the constants of   *)
(*         StaticInit.tla do not describe: never allowed.                  *)
(* Anything else is rejected.  One "V" line per event, common format.      *)
(***************************************************************************)
EXTENDS Integers, Sequences, TLC, Json, IOUtils

Tr == ndJsonDeserialize(IOEnv.TRACE)
SAT == 2000000000
Item(name, ratio) == <<name, ratio>>
Has(ev, f) == f \in DOMAIN ev

IsBits(s) == \A i \in 1..Len(s) : Len(s[i]) = 2
SameBits(a, b) == /\ Len(a) = Len(b)
                  /\ \A i \in 1..Len(a) : a[i][1] = b[i][1] /\ a[i][2] = b[i][2]

OpItems(ev) ==
  IF ~(\A f \in {"op", "th", "i", "exc", "out", "ref", "post"} : Has(ev, f)) \/ ~IsBits(ev.out) \/ ~IsBits(ev.ref) \/ ~IsBits(ev.post)
  THEN << Item("malformed", SAT) >>
  ELSE << Item("returns", IF ev.exc = "none" /\ Len(ev.out) > 0 THEN 0 ELSE SAT),
          Item("same_as_single_thread", IF SameBits(ev.out, ev.ref) THEN 0 ELSE SAT),
          Item("same_as_after_join", IF SameBits(ev.out, ev.post) THEN 0 ELSE SAT) >>

Verdict(ev) == IF ~Has(ev, "e") THEN << Item("unknown_event", SAT) >>
               ELSE IF ev.e = "op" THEN OpItems(ev)
               ELSE IF ev.e = "race" THEN << Item("race", SAT) >>
               ELSE IF ev.e = "crash" THEN << Item("crash_or_hang", SAT) >>
               ELSE IF ev.e \in {"static", "static_gone", "static_cycle", "scan_problem", "model_mismatch"}
                    THEN << Item("model_does_not_describe_code", SAT) >>
               ELSE << Item("unknown_event", SAT) >>

VARIABLE l
Init == l = 1
Next == /\ l <= Len(Tr)
        /\ l' = l + 1
        /\ PrintT(ToJson(<<"V", l, -99999, -99999, 99999, Verdict(Tr[l])>>))
Spec == Init /\ [][Next]_l
TraceAccepted == TLCGet("stats").diameter - 1 = Len(Tr)
=============================================================================
