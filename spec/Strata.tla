------------------------------- MODULE Strata -------------------------------
(***************************************************************************)
(* The strata catalogue and the PLAN generator (DESIGN.md 2.4, 2.6).       *)
(* The input space of every numeric property is cut into named cells:      *)
(* rotation magnitude on a log scale around each branch threshold x        *)
(* independent linear magnitude x hemisphere x direction x (for two-operand*)
(* operations) the rotation/linear cell of the second operand or of the    *)
(* relative transform x optional-output request.  TLC enumerates the cell  *)
(* set of the property selected by the environment variable PROP (one      *)
(* state per cell) and prints each cell as a JSON line; the recorder draws *)
(* concrete values inside each cell; ManifTrace re-classifies every        *)
(* recorded input so that coverage per cell is measured.                   *)
(***************************************************************************)
EXTENDS Integers, Sequences, TLC, Json, IOUtils

Prop == IOEnv.PROP
Tier == IOEnv.TIER           \* "quick" | "thorough"

ThetaAll  == << "zero", "denormal", "tiny", "small", "sub_sw", "below_sw", "at_sw", "above_sw", "sw_1e2",
                "cube_sw", "mid_lo", "mid_hi", "generic", "near_pi", "at_pi", "beyond_pi" >>
\* rotation cells for tangents that must stay inside the injectivity radius
ThetaIn   == << "zero", "denormal", "tiny", "small", "sub_sw", "below_sw", "at_sw", "above_sw", "sw_1e2",
                "cube_sw", "mid_lo", "mid_hi", "generic", "near_pi" >>
\* rotation cells of an element (angle 0..pi) built from coefficients
ThetaElem == << "zero", "tiny", "small", "sub_sw", "above_sw", "sw_1e2", "mid_lo", "mid_hi", "generic", "near_pi", "at_pi" >>
LinAll    == << "zero", "1e-8", "1e-3", "1", "1e3", "1e6" >>
LinJ      == << "zero", "1", "1e3", "1e6" >>
Hemis     == << "pos", "neg" >>
Dirs      == << "generic", "axis", "z1", "par", "z0", "perp", "z2" >>    \* zk: the k-th linear block exactly zero

GroupsD == << "SO2_d", "SE2_d", "SO3_d", "SE3_d", "SE_2_3_d", "SGal3_d", "R3_d" >>
GroupsF == << "SO2_f", "SE2_f", "SO3_f", "SE3_f", "SE_2_3_f", "SGal3_f", "R3_f" >>
\* both tiers run every group in both precisions (the tiers differ in the number of draws per cell and in the sweeps)
GroupsQ == GroupsD \o GroupsF
\* bundles on which the algorithms (interpolation, averages) and the tangent vector-space events are also run:
\* B1 = Bundle<SE2, SO3, R3>, B2 = Bundle<SO2, SE_2_3, R1> (tools/vlib.py BUNDLE_KEYS); every element is drawn in the cell
GroupsB == << "B1_d", "B2_d", "B1_f" >>

Reps == IF Tier = "thorough" THEN 12 ELSE 2
Range(s) == { s[i] : i \in 1..Len(s) }
Idx(s, x) == CHOOSE i \in 1..Len(s) : s[i] = x
Cyc(s, k) == s[(k % Len(s)) + 1]

Cell(op, key, thc, linc, hemi, dir, thc2, linc2, jac) ==
  [op |-> op, key |-> key, prop |-> Prop, thc |-> thc, linc |-> linc, hemi |-> hemi, dir |-> dir,
   thc2 |-> thc2, linc2 |-> linc2, jac |-> jac, reps |-> Reps]

\* full product theta x lin for one-operand tangent operations; the remaining dimensions are
\* covered by cycling (every value of every other dimension occurs with every theta and every lin)
TangentCells(ops, thetas, lins, jac) ==
  { Cell(op, key, thetas[i], lins[j], "any", Cyc(Dirs, i + j), "generic", "1", jac) :
      op \in ops, key \in Range(GroupsQ), i \in 1..Len(thetas), j \in 1..Len(lins) }
\* elements: theta x lin x hemisphere, second operand cells cycled
ElementCells(ops, thetas, lins, thetas2, lins2, jac) ==
  { Cell(op, key, thetas[i], lins[j], Hemis[h], Cyc(Dirs, i + j), Cyc(thetas2, i + 2 * j + h), Cyc(lins2, i + j + h), jac) :
      op \in ops, key \in Range(GroupsQ), i \in 1..Len(thetas), j \in 1..Len(lins), h \in 1..2 }

\* thorough tier: log-dense sweep of the rotation magnitude over [1e-9, pi] (400 draws = 42 per decade) for the
\* one-operand functions, at three linear magnitudes, double precision
Sweep(ops, jac) ==
  IF Tier # "thorough" THEN {}
  ELSE { [op |-> op, key |-> GroupsD[k], prop |-> Prop, thc |-> "sweep", linc |-> lc, hemi |-> "any", dir |-> "generic",
          thc2 |-> "generic", linc2 |-> "1", jac |-> jac, reps |-> 400] : op \in ops, k \in 1..Len(GroupsD), lc \in {"1", "1e3", "1e6"} }

PlanOf(p) ==
  CASE p = "C01" -> ElementCells({"compose", "inverse", "act", "transform"}, ThetaElem, LinAll, ThetaElem, LinAll, 0)
                    \cup { Cell("identity", key, "-", "-", "-", "-", "-", "-", 0) : key \in Range(GroupsQ) }
                    \* operands that are valid but not exactly normalised (inside the acceptance threshold): the product of two such
                    \* operands leaves the threshold, which is what sends compose through its renormalisation branch
                    \cup { Cell(op, key, ThetaElem[i], Cyc(<<"zero", "1", "1e3">>, i + h), <<"posdn", "negdn">>[h], Cyc(Dirs, i + h),
                                 Cyc(ThetaElem, i + 3 * h), "1", 0) :
                             op \in {"compose", "inverse", "act"}, key \in Range(GroupsQ), i \in 1..Len(ThetaElem), h \in 1..2 }
                    \* operands with DIFFERENT zero patterns (round 9): one has its d-th linear block exactly zero, the other is generic
                    \* (alternating which); in ElementCells both operands share the direction code
                    \cup { Cell("composex", key, ThetaElem[i], Cyc(<<"1", "zero", "1e3">>, i + d), Hemis[h], <<"z0", "z1", "z2">>[d],
                                 Cyc(ThetaElem, i + d + h), "1", 0) :
                             key \in Range(GroupsQ), i \in 1..Len(ThetaElem), d \in 1..3, h \in 1..2 }
    [] p = "C02" -> TangentCells({"exp"}, ThetaAll, LinAll, 0) \cup Sweep({"exp"}, 0)
    [] p = "C03" -> ElementCells({"log", "logtwin"}, ThetaElem, LinAll, <<"generic">>, <<"1">>, 0)
                    \cup TangentCells({"explog"}, ThetaAll, LinAll, 0)
                    \* valid but not exactly normalised coefficients (inside the library's acceptance threshold), either hemisphere
                    \cup { Cell("log", key, ThetaElem[i], Cyc(<<"zero", "1", "1e3">>, i + h), <<"posdn", "negdn">>[h], Cyc(Dirs, i + h), "generic", "1", 0) :
                             key \in Range(GroupsQ), i \in 1..Len(ThetaElem), h \in 1..2 }
                    \cup { Cell("logchain", key, "-", LinAll[j], "any", Dirs[d], "-", "-", 0) :
                             key \in Range(GroupsQ), j \in 1..Len(LinAll), d \in 1..2 }
    [] p = "C04" -> ElementCells({"rplus", "lplus", "rminus", "lminus", "between"}, ThetaElem, LinJ, ThetaIn, LinAll, 0)
                    \cup ElementCells({"alias"}, ThetaElem, <<"zero", "1", "1e3">>, ThetaIn, <<"1", "1e3">>, 0)
    [] p = "C05" -> ElementCells({"inverse", "log", "compose", "between", "rplus", "lplus", "rminus", "lminus", "act"},
                                 ThetaElem, LinJ, ThetaIn, LinJ, 1)
                    \cup TangentCells({"exp"}, ThetaIn, LinJ, 1)
                    \cup TangentCells({"tplus"}, <<"generic">>, <<"1", "1e6">>, 1)
    [] p = "C06" -> TangentCells({"jacs", "adjexp"}, ThetaIn, LinJ, 0) \cup Sweep({"jacs"}, 0)
                    \cup ElementCells({"adj"}, ThetaElem, LinAll, <<"generic">>, <<"1">>, 0)
    [] p = "C15" -> { Cell("interp", key, ThetaElem[i], Cyc(<<"zero", "1", "1e3">>, i + j), meth, pk, Cyc(<<"generic", "mid_hi", "near_pi", "small", "zero">>, i + j), "1", v) :
                        key \in Range(GroupsQ), i \in {1, 3, 9, 10}, j \in 1..2, v \in {0, 1},
                        meth \in {"SLERP", "CUBIC", "CNSMOOTH"}, pk \in {"zero", "one", "random", "dyadic", "near0", "near1", "below", "above", "nan"} }
                    \cup { Cell("interp", key, ThetaElem[i], Cyc(<<"zero", "1", "1e3">>, i + j), meth, pk, Cyc(<<"generic", "mid_hi", "near_pi", "small", "zero">>, i + j), "1", v) :
                        key \in Range(GroupsB), i \in {1, 9, 10}, j \in 1..2, v \in {0, 1},
                        meth \in {"SLERP", "CUBIC", "CNSMOOTH"}, pk \in {"zero", "one", "random", "near1", "above"} }
                    \cup { Cell("phi", key, k, "-", "-", "-", "-", "-", 0) : key \in {"SE3_d", "SE3_f"}, k \in {"grid", "random"} }
    [] p = "C16" -> { Cell("avg", key, thc, linc, routine, kind, "-", "-", 0) :
                        key \in Range(GroupsQ), thc \in {"zero", "generic", "near_pi", "at_pi"}, linc \in {"zero", "1", "1e3"},
                        routine \in {"biinvariant", "average", "frechet_left", "frechet_right"},
                        kind \in {"n1", "n2", "n3", "n10", "out1", "same", "empty"} \cup (IF Tier = "thorough" THEN {"n50"} ELSE {}) }
                    \cup { Cell("avg", key, thc, linc, routine, kind, "-", "-", 0) :
                        key \in Range(GroupsB), thc \in {"generic", "near_pi"}, linc \in {"1", "1e3"},
                        routine \in {"biinvariant", "average", "frechet_left", "frechet_right"},
                        kind \in {"n2", "n10", "out1", "same", "empty"} }
    [] p = "C18" -> { Cell("isapprox", key, ThetaElem[i], linc, Hemis[h], "generic", e, f, 0) :
                        key \in Range(GroupsQ), i \in 1..Len(ThetaElem), h \in 1..2,
                        linc \in {"zero", "1e-8", "1e-3", "1", "1e3", "1e6", "1e9"}, e \in {"eps", "1e-9", "1e-3"}, f \in {"0", "lo", "hi", "tiny"} }
                    \cup { Cell("tisapprox", key, thc, linc, "-", "-", e, f, 0) :
                        key \in Range(GroupsQ), thc \in {"zero", "small", "generic", "near_pi"}, linc \in {"zero", "1e-3", "1", "1e6"},
                        e \in {"eps", "1e-9", "1e-3"}, f \in {"0", "lo", "hi", "tiny"} }
    [] p = "C07" -> { Cell("generator", key, "-", "-", "-", "-", "-", "-", 0) : key \in Range(GroupsQ) }
                    \cup { Cell("algebra", key, k, "-", "-", "-", "-", "-", 0) : key \in Range(GroupsQ), k \in {"int", "real"} }
                    \* beyond the listed properties: vector-space operators of tangents, Jacobian*Tangent, utilities, Random()
                    \cup { Cell("tarith", key, thc, linc, "-", "-", "-", "-", 0) : key \in Range(GroupsQ), thc \in {"small", "generic"}, linc \in {"1e-3", "1", "1e6"} }
                    \cup { Cell("misc", key, "-", "-", "-", "-", "-", "-", 0) : key \in Range(GroupsQ) }
                    \cup { Cell("tarith", key, thc, "1", "-", "-", "-", "-", 0) : key \in Range(GroupsB), thc \in {"small", "generic"} }

\* Jacobian-grade properties are stated for double; single precision is exercised on the same
\* cells except the 1e6 linear magnitude (the coupling blocks of SGal3 involve products of two
\* linear coordinates, 1e12, which single precision cannot carry to 1e-3)
IsFloatKey(k) == (\E i \in 1..Len(GroupsF) : GroupsF[i] = k) \/ k = "B1_f"
FloatOK(c) == /\ (Prop \in {"C05", "C06"} /\ IsFloatKey(c.key)) => (c.linc # "1e6" /\ c.linc2 # "1e6")
              \* averages: the stationarity residual is judged at an absolute 2*sqrt(eps); with coordinates of 1e3 single precision
              \* resolves the SGal3 coupling terms (1e6) to 0.06 only, so the large-spread clouds are double only
              /\ (Prop = "C16" /\ IsFloatKey(c.key)) => c.linc # "1e3"

VARIABLE cell
Init == cell \in { c \in PlanOf(Prop) : FloatOK(c) }
Next == UNCHANGED cell
Emit == PrintT(ToJson(cell))
=============================================================================
