"""C19: the C++ side of spec/ApiMatrix.tla -- one snippet per documented API entry, the C++ type of every group /
scalar / storage name of the model, and the text of the generated client programs.

A snippet uses the entry on the operands
    X, Y   group objects of the cell's storage kind (owning G, Eigen::Map<G>, const Eigen::Map<const G>)
    t, s   tangents of the same storage kind
    p      a point (G::Vector);  J1, J2 (G::Jacobian), Ja (Dim x DoF), Jv (Dim x Dim) optional-Jacobian outputs
    v      a plain Eigen vector of DoF coefficients;  a  a Lie algebra element (t.hat() of another tangent)
and leaves its value in a variable `res` (anything `flat` can log: Eigen expressions, groups, tangents,
arithmetic values, pointers to coefficients, strings, vectors of those).  A snippet without the word `res` is a
single expression E and stands for `auto res = E;`.  PK(r, A, B) packs a result with its output Jacobians.
The canonical member of an entry (ApiMatrix!Canon) is evaluated by *its* snippet on equal operands, so snippets of
an entry and of its canonical member must name the operands alike (t.rplus(X) ~ X.rplus(t))."""
import re

GROUPS = {
    "SO2": "manif::SO2<{s}>", "SE2": "manif::SE2<{s}>", "SO3": "manif::SO3<{s}>", "SE3": "manif::SE3<{s}>",
    "SE_2_3": "manif::SE_2_3<{s}>", "SGal3": "manif::SGal3<{s}>", "R3": "manif::R3<{s}>",
    "B_SE2_R3": "manif::Bundle<{s}, manif::SE2, manif::R3>",
    "B_R2_SO3_R1_SE3": "manif::Bundle<{s}, manif::R2, manif::SO3, manif::R1, manif::SE3>",
}
SCALARS = {"d": "double", "f": "float"}
STORAGES = {"own": ("G", "T"), "map": ("Eigen::Map<G>", "Eigen::Map<T>"), "cmap": ("const Eigen::Map<const G>", "const Eigen::Map<const T>")}   # const views are declared as in docs/pages/cpp/On-the-use-with-Ceres.md

def _with_jac(d):
    """entries that take optional Jacobians: NAME -> (call with %s for the extra arguments, packed Jacobians)"""
    out = {}
    for name, (call, jargs, pk) in d.items():
        out[name] = call % ""
        out[name + "_J"] = "auto r0 = " + (call % (", " + jargs)) + "; auto res = PK(r0, " + pk + ");"
    return out

SNIPPETS = {}
# ---- group members (lie_group_base.h, README table) ------------------------------------------------------
_G2 = {  # name: (call pattern, jacobian arguments, what to pack)
    "compose": ("X.compose(Y%s)", "J1, J2", "J1, J2"), "between": ("X.between(Y%s)", "J1, J2", "J1, J2"),
    "rplus": ("X.rplus(t%s)", "J1, J2", "J1, J2"), "lplus": ("X.lplus(t%s)", "J1, J2", "J1, J2"),
    "plus": ("X.plus(t%s)", "J1, J2", "J1, J2"),
    "rminus": ("X.rminus(Y%s)", "J1, J2", "J1, J2"), "lminus": ("X.lminus(Y%s)", "J1, J2", "J1, J2"),
    "minus": ("X.minus(Y%s)", "J1, J2", "J1, J2"),
    "act": ("X.act(p%s)", "Ja, Jv", "Ja, Jv"),
}
SNIPPETS.update({"g." + k: v for k, v in _with_jac(_G2).items()})
for _n in ("inverse", "log", "lift"):
    SNIPPETS["g." + _n] = "X.%s()" % _n
    SNIPPETS["g." + _n + "_J"] = "auto r0 = X.%s(J1); auto res = PK(r0, J1, J1);" % _n
SNIPPETS.update({
    "g.adj": "X.adj()", "g.isApprox": "X.isApprox(Y)", "g.op==": "X == Y",
    "g.op+": "X + t", "g.op-": "X - Y", "g.op*": "X * Y",
    "g.op+=": "X += t; auto& res = X;", "g.op*=": "X *= Y; auto& res = X;",
    "g.op[]": "X[0]", "g.op<<": "std::ostringstream os; os << X; auto res = os.str();",
    "g.setIdentity": "X.setIdentity(); auto& res = X;", "g.setRandom": "X.setRandom(); auto& res = X;",
    "g.Identity": "G::Identity()", "g.Random": "G::Random()",
    "g.coeffs": "X.coeffs()", "g.data": "X.data()",
    "g.cast_d": "X.cast<double>()", "g.cast_f": "X.cast<float>()",
    "g.transform": "X.transform()", "g.rotation": "X.rotation()", "g.translation": "X.translation()",
    "g.size": "X.size()", "g.Dim": "(int)GX::Dim", "g.DoF": "(int)GX::DoF", "g.RepSize": "(int)GX::RepSize",
})
# ---- tangent members (tangent_base.h) --------------------------------------------------------------------
_T2 = {  # the tangent-side plus family takes (J wrt tangent, J wrt group): packed in the order of the group member
    "rplus_g": ("t.rplus(X%s)", "J2, J1", "J1, J2"), "lplus_g": ("t.lplus(X%s)", "J2, J1", "J1, J2"),
    "plus_g": ("t.plus(X%s)", "J2, J1", "J1, J2"),
    "plus_t": ("t.plus(s%s)", "J1, J2", "J1, J2"), "minus_t": ("t.minus(s%s)", "J1, J2", "J1, J2"),
}
SNIPPETS.update({"t." + k: v for k, v in _with_jac(_T2).items()})
for _n in ("exp", "retract"):
    SNIPPETS["t." + _n] = "t.%s()" % _n
    SNIPPETS["t." + _n + "_J"] = "auto r0 = t.%s(J1); auto res = PK(r0, J1, J1);" % _n
SNIPPETS.update({
    "t.hat": "t.hat()", "t.rjac": "t.rjac()", "t.ljac": "t.ljac()", "t.rjacinv": "t.rjacinv()", "t.ljacinv": "t.ljacinv()",
    "t.smallAdj": "t.smallAdj()", "t.inner": "t.inner(s)", "t.weightedNorm": "t.weightedNorm()",
    "t.squaredWeightedNorm": "t.squaredWeightedNorm()",
    "t.op+_g": "t + X", "t.op+_t": "t + s", "t.op-_t": "t - s", "t.op*_s": "t * S(0.75)", "t.s_op*": "S(0.75) * t",
    "t.op/_s": "t / S(0.75)", "t.op-neg": "-t", "t.J_op*": "J1 * t",
    "t.op+_v": "t + v", "t.op-_v": "t - v", "t.v_op+": "T::DataType res = v + t;", "t.v_op-": "T::DataType res = v - t;",
    "t.op+=_t": "t += s; auto& res = t;", "t.op-=_t": "t -= s; auto& res = t;",
    "t.op+=_v": "t += v; auto& res = t;", "t.op-=_v": "t -= v; auto& res = t;",
    "t.op*=": "t *= S(0.75); auto& res = t;", "t.op/=": "t /= S(0.75); auto& res = t;",
    "t.op==_t": "t == s", "t.op==_v": "t == v", "t.op[]": "t[0]",
    "t.op<<": "std::ostringstream os; os << t; auto res = os.str();",
    "t.setZero": "t.setZero(); auto& res = t;", "t.setRandom": "t.setRandom(); auto& res = t;",
    "t.setVee": "t.setVee(a); auto& res = t;",
    "t.Zero": "T::Zero()", "t.Random": "T::Random()", "t.Generator": "T::Generator(0)", "t.generator": "t.generator(0)",
    "t.InnerWeights": "T::InnerWeights()", "t.innerWeights": "t.innerWeights()",
    "t.Vee": "T::Vee(a)", "t.Bracket": "TX::Bracket(t, s)", "t.bracket": "t.bracket(s)",
    "t.isApprox_t": "t.isApprox(s)", "t.isApprox_v": "t.isApprox(v)",
    "t.coeffs": "t.coeffs()", "t.data": "t.data()", "t.cast_d": "t.cast<double>()", "t.cast_f": "t.cast<float>()",
    "t.size": "t.size()", "t.Dim": "(int)TX::Dim", "t.DoF": "(int)TX::DoF", "t.RepSize": "(int)TX::RepSize",
})
# ---- free functions (functions.h) ------------------------------------------------------------------------
_F2 = {
    "compose": ("manif::compose(X, Y%s)", "J1, J2", "J1, J2"), "between": ("manif::between(X, Y%s)", "J1, J2", "J1, J2"),
    "rplus": ("manif::rplus(X, t%s)", "J1, J2", "J1, J2"), "lplus": ("manif::lplus(X, t%s)", "J1, J2", "J1, J2"),
    "plus": ("manif::plus(X, t%s)", "J1, J2", "J1, J2"),
    "rminus": ("manif::rminus(X, Y%s)", "J1, J2", "J1, J2"), "lminus": ("manif::lminus(X, Y%s)", "J1, J2", "J1, J2"),
    "minus": ("manif::minus(X, Y%s)", "J1, J2", "J1, J2"),
    "act": ("manif::act(X, p%s)", "Ja, Jv", "Ja, Jv"),
    "inverse": ("manif::inverse(X%s)", "J1", "J1, J1"), "log": ("manif::log(X%s)", "J1", "J1, J1"),
    "lift": ("manif::lift(X%s)", "J1", "J1, J1"),
    "exp": ("manif::exp(t%s)", "J1", "J1, J1"), "retract": ("manif::retract(t%s)", "J1", "J1, J1"),
}
SNIPPETS.update({"f." + k: v for k, v in _with_jac(_F2).items()})
SNIPPETS.update({
    "f.coeffs_g": "manif::coeffs(X)", "f.coeffs_t": "manif::coeffs(t)", "f.data_g": "manif::data(X)", "f.data_t": "manif::data(t)",
    "f.identity": "manif::identity(X); auto& res = X;", "f.Identity": "manif::Identity<G>()",
    "f.zero": "manif::zero(t); auto& res = t;", "f.Zero": "manif::Zero<T>()",
    "f.random_g": "manif::random(X); auto& res = X;", "f.random_t": "manif::random(t); auto& res = t;",
    "f.Random_g": "manif::Random<G>()", "f.Random_t": "manif::Random<T>()",
})
# ---- algorithms ------------------------------------------------------------------------------------------
_PTS = "std::vector<G> pts; pts.push_back(X); pts.push_back(X.rplus(t * S(0.1))); pts.push_back(X.rplus(s * S(0.1))); pts.push_back(X.lplus(s * S(0.1))); "
SNIPPETS.update({
    "a.interpolate(SLERP)": "manif::interpolate(X, Y, S(0.3), manif::INTERP_METHOD::SLERP)",
    "a.interpolate(CUBIC)": "manif::interpolate(X, Y, S(0.3), manif::INTERP_METHOD::CUBIC, T(t), T(s))",
    "a.interpolate(CNSMOOTH)": "manif::interpolate(X, Y, S(0.3), manif::INTERP_METHOD::CNSMOOTH, T(t), T(s))",
    "a.interpolate_slerp": "manif::interpolate_slerp(X, Y, S(0.3))",
    "a.interpolate_cubic": "manif::interpolate_cubic(X, Y, S(0.3), T(t), T(s))",
    "a.interpolate_smooth": "manif::interpolate_smooth(X, Y, S(0.3), 3, T(t), T(s))",
    "a.average_biinvariant": _PTS + "auto res = manif::average_biinvariant(pts);",
    "a.average": _PTS + "auto res = manif::average(pts);",
    "a.average_frechet_left": _PTS + "auto res = manif::average_frechet_left(pts);",
    "a.average_frechet_right": _PTS + "auto res = manif::average_frechet_right(pts);",
    "a.decasteljau": _PTS + "auto res = manif::decasteljau(pts, 3, 2, true);",
})

def statements(name):
    s = SNIPPETS[name]
    return s if re.search(r"\bres\b", s) else "auto res = " + s + ";"

# ---------------------------------------------------------------------------------------------------------
# generated translation unit: prelude (per batch: group, scalar, storage) + one function per cell
PRELUDE = r'''// generated by tools/checks/c19.py -- batch @GNAME@ / @SC@ / @KIND@
#include "rec.h"
#include <sstream>
#include <type_traits>
typedef @GTYPE@ G;
typedef G::Tangent T; typedef G::Scalar S; typedef G::Vector V; typedef G::Jacobian J; typedef T::LieAlg A;
typedef Eigen::Matrix<S, G::Dim, G::DoF> JA; typedef Eigen::Matrix<S, G::Dim, G::Dim> JV; typedef Eigen::Matrix<S, G::DoF, 1> VT;
typedef @GX@ GX; typedef @TX@ TX;
struct Ctx { S x[G::RepSize], y[G::RepSize], t[G::DoF], s[G::DoF]; V p; VT v; A a; J j; unsigned seed; };
static Ctx C;
// fresh operands of the batch's storage kind over private copies of the batch's random coefficients
#define OPERANDS \
  S bx[G::RepSize], by[G::RepSize], bt[G::DoF], bs[G::DoF]; \
  std::memcpy(bx, C.x, sizeof bx); std::memcpy(by, C.y, sizeof by); std::memcpy(bt, C.t, sizeof bt); std::memcpy(bs, C.s, sizeof bs); \
  std::srand(C.seed); \
  GX X((@GINIT@(bx))), Y((@GINIT@(by))); TX t((@TINIT@(bt))), s((@TINIT@(bs))); \
  V p(C.p); VT v(C.v); A a(C.a); J J1(C.j), J2(C.j); JA Ja; JV Jv; Ja.setZero(); Jv.setZero(); \
  (void)X; (void)Y; (void)t; (void)s; (void)p; (void)v; (void)a;
typedef std::vector<double> Flat;
template <class D> void flat(Flat& o, const Eigen::MatrixBase<D>& m) { for (int i = 0; i < m.rows(); ++i) for (int j = 0; j < m.cols(); ++j) o.push_back((double)m(i, j)); }
template <class D> void flat(Flat& o, const manif::LieGroupBase<D>& g) { flat(o, g.coeffs()); }
template <class D> void flat(Flat& o, const manif::TangentBase<D>& t) { flat(o, t.coeffs()); }
template <class N> typename std::enable_if<std::is_arithmetic<N>::value>::type flat(Flat& o, N x) { o.push_back((double)x); }
inline void flat(Flat& o, const float* q) { o.push_back((double)*q); }
inline void flat(Flat& o, const double* q) { o.push_back(*q); }
inline void flat(Flat& o, const std::string& s) { for (char c : s) o.push_back((double)c); }
inline void flat(Flat& o, const Flat& f) { o.insert(o.end(), f.begin(), f.end()); }
template <class E> void flat(Flat& o, const std::vector<E>& v) { for (const E& e : v) flat(o, e); }
template <class R, class A1, class A2> Flat PK(const R& r, const A1& a1, const A2& a2) { Flat o; flat(o, r); flat(o, a1); flat(o, a2); return o; }
static Flat R0, R1;
static void emit(const char* entry, const char* canon, const char* exc = nullptr) {
  rec::Out& o = rec::out(); if (!o.f) return;
  o.begin("api"); o.str("entry", entry); o.str("canon", canon); o.raw("g", "{\"k\":\"@GNAME@\"}"); o.str("sc", "@SC@"); o.str("k", "@KIND@");
  o.str("st", std::string(entry) + "/@GNAME@/@SC@/@KIND@");
  o.vec("res", Eigen::Map<const Eigen::VectorXd>(R0.data(), R0.size())); o.vec("canon_res", Eigen::Map<const Eigen::VectorXd>(R1.data(), R1.size()));
  if (exc) o.str("exc", exc);
  o.end(); std::fflush(o.f); R0.clear(); R1.clear();
}
'''

MAIN = r'''
#line 1 "c19_main"
#define CALL(F, ENTRY, CANON) try { R0.clear(); R1.clear(); F(); emit(ENTRY, CANON); } catch (const std::exception& e) { emit(ENTRY, CANON, "exception"); }
int main(int argc, char** argv) {
  if (argc < 3) return 2;
  rec::out().open(argv[1]); C.seed = (unsigned)std::atol(argv[2]);
  std::mt19937_64 g(C.seed); std::uniform_real_distribution<double> u(-1.0, 1.0);
  T tx, ty, ta; for (int i = 0; i < G::DoF; ++i) { tx.coeffs()(i) = (S)u(g); ty.coeffs()(i) = (S)u(g); C.t[i] = (S)u(g); C.s[i] = (S)u(g); C.v(i) = (S)u(g); ta.coeffs()(i) = (S)u(g); }
  G gx = tx.exp(), gy = ty.exp();
  for (int i = 0; i < G::RepSize; ++i) { C.x[i] = gx.coeffs()(i); C.y[i] = gy.coeffs()(i); }
  for (int i = 0; i < G::Dim; ++i) C.p(i) = (S)u(g);
  for (int i = 0; i < G::DoF; ++i) for (int j = 0; j < G::DoF; ++j) C.j(i, j) = (S)u(g);
  C.a = ta.hat();
@CALLS@
  rec::out().close();
  return 0;
}
'''

def prelude(gname, sc, kind):
    gx, tx = STORAGES[kind]
    own = kind == "own"
    rep = {"@GNAME@": gname, "@SC@": sc, "@KIND@": kind, "@GTYPE@": GROUPS[gname].format(s=SCALARS[sc]), "@GX@": gx, "@TX@": tx,
           "@GINIT@": "Eigen::Map<const G::DataType>" if own else "", "@TINIT@": "Eigen::Map<const T::DataType>" if own else ""}
    s = PRELUDE
    for k, v in rep.items(): s = s.replace(k, v)
    return s

def cell_function(idx, entry, canon):
    """the client program of one cell; `#line` makes every diagnostic of its body carry the cell index.
    With -DC19_RUN the canonical member is evaluated next to the entry and both results are recorded."""
    return ('#line 1 "cell_%d"\nvoid cell_%d() {\n  { OPERANDS %s flat(R0, res); }\n#ifdef C19_RUN\n  { OPERANDS %s flat(R1, res); }\n#endif\n}\n'
            % (idx, idx, statements(entry), statements(canon)))

def main_function(cells):
    """cells: (index, entry, canon); a cell that throws is recorded with an `exc` field (never forwards)"""
    return MAIN.replace("@CALLS@", "\n".join('  CALL(cell_%d, "%s", "%s")' % c for c in cells))
