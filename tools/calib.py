#!/usr/bin/env python3
"""print the calibration table of the last run of a property: worst ratio per (event,group,item) x theta cell (max over lin cells)"""
import json, sys, collections
prop, tier = sys.argv[1], (sys.argv[2] if len(sys.argv) > 2 else "quick")
rows = json.load(open("/verif/.cache/calib/%s_%s.json" % (prop, tier)))
tab = collections.defaultdict(dict); cols = []
bylin = len(sys.argv) > 3 and sys.argv[3] == "lin"
for e, g, item, thc, linc, v in rows:
    c = linc if bylin else thc
    if c not in cols: cols.append(c)
    k = (e, g, item); tab[k][c] = max(tab[k].get(c, 0), v)
order = ["zero","denormal","tiny","small","below_sw","at_sw","above_sw","sw_1e2","cube_sw","mid_lo","mid_hi","generic","near_pi","at_pi","beyond_pi"]
cols.sort(key=lambda c: order.index(c) if c in order else 99)
print("%-28s" % "" + " ".join("%8s" % c[:8] for c in cols))
for k in sorted(tab):
    if max(tab[k].values()) < (int(sys.argv[4]) if len(sys.argv) > 4 else 50): continue
    print("%-28s" % "/".join(k) + " ".join("%8s" % (("%.2g" % (tab[k].get(c, 0) / 1000.0)) if c in tab[k] else "-") for c in cols))
