from . import numeric
def run(tier, seed):
    return numeric.run("C01", tier, seed, lambda e, i: not i.startswith("J"),
        "cells = Strata.tla PlanOf(C01): {compose,inverse,act,transform} x group x rotation cell x linear cell x hemisphere (second operand cells cycled) + identity; distinct = (event, group, scalar, stratum or theta/lin log2 bucket measured by the trace spec)")
