"""C01: (a) strata traces validated against exact matrix products (numeric.run); (b) exhaustive exact lattices
ManifLattice.tla (integer coefficient formulas refine the matrix model in every reachable state) with every
exported state replayed on the real library and compared EXACTLY by LatticeTrace.tla."""
import os, json
import vlib
from . import numeric

KIND_TYPE = {"SE2": "manif::SE2<%s>", "SO3": "manif::SO3<%s>", "SE3": "manif::SE3<%s>", "SE_2_3": "manif::SE_2_3<%s>", "SGal3": "manif::SGal3<%s>"}
def flat(e, planar):
    q = list(e["q"]) + ([0, 0] if planar else [])
    pad = lambda v: list(v) + [0] * (3 - len(v))
    return q + pad(e["t"]) + pad(e["v"]) + [e["s"]]

def lattice(rep, tier, seed):
    kinds = ["SE2", "SO3", "SE3"] if tier == "quick" else ["SE2", "SO3", "SE3", "SE_2_3", "SGal3"]
    wd = vlib.workdir("C01lat")
    jobs = []
    for k in kinds:
        for sc, st in (("d", "double"), ("f", "float")):
            jobs.append(dict(tag="rec_lattice_%s_%s" % (k, sc), src="rec_lattice.cpp", defs=["REC_GROUP=" + KIND_TYPE[k] % st, 'REC_KIND="%s"' % k]))
    res = vlib.build_many(jobs)
    bad = {t: l for t, (p, l) in res.items() if p is None}
    if bad: raise vlib.BuildError(bad)
    import concurrent.futures as cf
    def model(k):
        return k, vlib.tlc("ManifLattice", cfg="ManifLattice_%s.cfg" % k, overrides=False, workers=4, timeout=3000, extra=["-noGenerateSpecTE"])
    with cf.ThreadPoolExecutor(len(kinds)) as ex: outs = list(ex.map(model, kinds))
    all_results = []
    for k, (rc, out) in outs:
        if rc != 0 or "No error has been found" not in out: raise vlib.ModelError("ManifLattice %s failed:\n%s" % (k, out[-2500:]))
        st = vlib.tlc_stats(out); rep.states += st[0]; rep.transitions += st[1]
        objs = vlib.printed_json(out)
        gens = [o for o in objs if isinstance(o, dict) and "gens" in o][0]
        elems = [o for o in objs if isinstance(o, dict) and "q" in o]
        elems.sort(key=lambda e: json.dumps(e, sort_keys=True))
        rep.extra["lattice_states_" + k] = len(elems)
        planar = k == "SE2"
        pairs = [(e, g) for e in elems for g in gens["gens"]]
        # every reachable state is exported and model-checked; the replay takes every (state, generator) pair up to a cap
        # (quick: a ninth, at most 3000; thorough: at most 8000 per kind, a seed-rotated stride of the sorted list):
        # exact validation of one lattice event costs 0.1-0.3 s in TLC (10x10 adjoint by conjugation)
        cap = 3000 if tier == "quick" else 8000
        if tier == "quick": pairs = pairs[seed % 9::9]
        if len(pairs) > cap:
            step = (len(pairs) + cap - 1) // cap
            pairs = pairs[seed % step::step]
        rep.extra["lattice_pairs_replayed_" + k] = len(pairs)
        pts = gens["points"]
        lines = ["X %s G %s P %d %s" % (" ".join(map(str, flat(e, planar))), " ".join(map(str, flat(g, planar))), len(pts), " ".join(str(c) for p in pts for c in p)) for e, g in pairs]
        evs = []
        for sc in ("d", "f"):
            pp = os.path.join(wd, "plan_%s_%s.txt" % (k, sc)); open(pp, "w").write("\n".join(lines) + "\n")
            op = os.path.join(wd, "trace_%s_%s.ndjson" % (k, sc))
            r = vlib.sh(["timeout", "900", res["rec_lattice_%s_%s" % (k, sc)][0], pp, op])
            ls = open(op).read().splitlines() if os.path.exists(op) else []
            if r.returncode != 0 or len(ls) != len(lines) or any(vlib.TERMINATE in l for l in ls):
                # manif aborted on an exactly representable lattice element
                rep.violations.append(("rec_lattice %s %s aborted with %d after %d of %d events: %s" % (k, sc, r.returncode, len(ls), len(lines), r.stdout[-300:].replace("\n", " ")), json.dumps({"e": "crash", "key": k + "_" + sc})))
                ls = [l for l in ls if l.endswith("}") and vlib.TERMINATE not in l]
            evs += ls; rep.traces += 1
        # validate with the kind-specific configuration (constants Kind / Bound)
        n = min(vlib.NCPU, max(1, len(evs) // 60))
        shards = [evs[i::n] for i in range(n)]
        def val(i):
            p = os.path.join(wd, "shard_%s_%d.ndjson" % (k, i)); open(p, "w").write("\n".join(shards[i]) + "\n")
            rc2, out2 = vlib.tlc("LatticeTrace", cfg="LatticeTrace_%s.cfg" % k, env={"TRACE": p}, timeout=3000, extra=["-noGenerateSpecTE"])
            vs = [v for v in vlib.printed_json(out2) if isinstance(v, list) and v and v[0] == "V"]
            if rc2 != 0 or len(vs) != len(shards[i]): raise vlib.ModelError("LatticeTrace %s shard %d not accepted (%d/%d):\n%s" % (k, i, len(vs), len(shards[i]), out2[-2500:]))
            return [dict(ev=shards[i][v[1] - 1], theta=v[2], lin=v[3], gap=v[4], items=[(a, b) for a, b in v[5]]) for v in vs], vlib.tlc_stats(out2)
        with cf.ThreadPoolExecutor(n) as ex:
            for r2, st2 in ex.map(val, range(n)):
                all_results += r2; rep.states += st2[0]; rep.transitions += st2[1]
    return all_results

def run(tier, seed):
    rule = ("(a) cells = Strata.tla PlanOf(C01): {compose,inverse,act,transform} x group x rotation cell x linear cell x hemisphere (second operand cells cycled) + identity, validated against exact matrix products; "
            "(b) every reachable state of ManifLattice.tla (24 Hurwitz quaternions / 4 quarter turns x bounded integer translations, velocities, time) x every generator replayed bit-exactly; "
            "(c) the same operations on the covering bundle layouts of BundleLayout.tla against the block-diagonal model; distinct = (event, group, scalar, stratum or theta/lin log2 bucket measured by the trace spec)")
    holder = {}
    def extra(rep):
        from . import c11
        # (c) bundles: compose / inverse / act / transform / identity of the covering bundle layouts (BundleLayout.tla)
        # against the block-diagonal matrix model
        return lattice(rep, tier, seed) + c11.collect(rep, "quick", seed, prop="C01", ops={"compose", "inverse", "act", "transform", "identity"})
    return numeric.run("C01", tier, seed, lambda e, i: not i.startswith("J"), rule, extra_results=extra, exhaustive=True)
