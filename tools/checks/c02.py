from . import numeric
def run(tier, seed):
    return numeric.run("C02", tier, seed, lambda e, i: i in ("r", "finite"),
        "cells = Strata.tla PlanOf(C02): exp x group x all 15 rotation cells x 6 linear cells, direction cycled; distinct = (group, scalar, floor(log2 theta)/3, floor(log2 lin)/5) buckets measured by the trace spec from the logged tangent")
