from . import numeric
def run(tier, seed):
    return numeric.run("C03", tier, seed, lambda e, i: not i.startswith("J"),
        "cells = Strata.tla PlanOf(C03): log/logtwin over coefficient-built elements (both hemispheres), explog over exp-built elements, logchain over products of near-pi rotations; distinct = (event, group, scalar, theta/lin log2 bucket of the returned logarithm)")
