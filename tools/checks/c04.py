from . import numeric
def run(tier, seed):
    return numeric.run("C04", tier, seed, lambda e, i: not i.startswith("J"),
        "cells = Strata.tla PlanOf(C04): {rplus,lplus,rminus,lminus,between} x group x element cell x hemisphere x tangent/relative-rotation cell; distinct = (event, group, scalar, theta/lin bucket)")
