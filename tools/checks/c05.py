from . import numeric
def run(tier, seed):
    return numeric.run("C05", tier, seed, lambda e, i: i.startswith("J") or i == "finite",
        "cells = Strata.tla PlanOf(C05): every Jacobian-returning operation x group x rotation cell x linear cell x hemisphere, second operand cells cycled, all Jacobians requested; distinct = (event, group, scalar, theta/lin bucket)")
