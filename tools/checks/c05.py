from . import numeric
def run(tier, seed):
    # the oracle itself: the spec's Jacobian formulas against the literal definition in exact arithmetic
    import vlib
    rc, js = vlib.tlc("JacobianSanity", timeout=900)
    if rc != 0 or js.count("JSANITY") != 8 or "FALSE" in js or js.count("TRUE") != 120:
        raise vlib.ModelError("JacobianSanity failed:\n" + js[-2000:])
    def bundles(rep):
        # bundles: the Jacobian-returning operations of the covering bundle layouts (BundleLayout.tla) against the
        # block-diagonal model, in strata where the element groups have no recorded finding; off-block entries exact zeros
        from . import c11
        return c11.collect(rep, "quick", seed, prop="C05", ops={"compose", "inverse", "between", "rplus", "lplus", "rminus", "lminus", "log", "exp", "act"})
    return numeric.run("C05", tier, seed, lambda e, i: i.startswith("J") or i in ("finite", "offblock_zero"), extra_results=bundles, rule="cells = Strata.tla PlanOf(C05): every Jacobian-returning operation x group x rotation cell x linear cell x hemisphere, second operand cells cycled, all Jacobians requested; distinct = (event, group, scalar, theta/lin bucket)")
