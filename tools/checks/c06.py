from . import numeric
def run(tier, seed):
    return numeric.run("C06", tier, seed, lambda e, i: True,
        "cells = Strata.tla PlanOf(C06): {rjac,ljac,rjacinv,ljacinv,smallAdj} and Adj(exp t)=Jl*Jr^-1 over tangent cells, adj over element cells; distinct = (event, group, scalar, theta/lin bucket)")
