"""C07: Lie-algebra structure.  (a) per-group strata events (numeric.run); (b) many groups in ONE process in seeded
orders (harness/rec_mixed): generators / inner weights / hat / vee / bracket of each group, incl. R1, R2 and bundles with
permuted element orders, must not depend on which other groups were used before (function-local static tables)."""
import os, json
import vlib
from . import numeric

def mixed(rep, tier, seed):
    p, log = vlib.build("rec_mixed", "rec_mixed.cpp", flags=["-std=c++14"])
    if p is None: raise vlib.BuildError({"rec_mixed": log})
    wd = vlib.workdir("C07mixed")
    lines = []
    for k in range(4 if tier == "quick" else 24):
        op = os.path.join(wd, "mixed_%d.ndjson" % k)
        r = vlib.sh(["timeout", "300", p, op, str(seed * 100 + k)])
        ls = open(op).read().splitlines() if os.path.exists(op) else []
        if r.returncode != 0:
            rep.violations.append(("rec_mixed aborted with %d: %s" % (r.returncode, r.stdout[-200:]), json.dumps({"e": "crash"})))
            ls = [l for l in ls if l.endswith("}")]
        lines += ls; rep.traces += 1
    results, st = vlib.validate(lines, wd, module="AlgoTrace")
    rep.states += st[0]; rep.transitions += st[1]
    return results

def run(tier, seed):
    return numeric.run("C07", tier, seed, lambda e, i: True,
        "Generator(i) for every i in -2..DoF+2, hat/Vee/Bracket/inner/weightedNorm/InnerWeights on integer (exact) and real tangents per group; the same for 21 group types (incl. R1, R2, bundles with permuted element orders) interleaved in one process in seeded orders; in addition (beyond the property) the vector-space operators of tangents, Jacobian*Tangent, pi2pi/toRad/toDeg and Random(); distinct = (event, group, scalar, stratum)",
        module="AlgoTrace", extra_results=lambda rep: mixed(rep, tier, seed))
