from . import numeric
def run(tier, seed):
    return numeric.run("C07", tier, seed, lambda e, i: True,
        "Generator(i) for every i in -2..DoF+2, hat/Vee/Bracket/inner/weightedNorm/InnerWeights on integer (exact) and real tangents; in addition (beyond the property) the vector-space operators of tangents, Jacobian*Tangent, pi2pi/toRad/toDeg and Random(); distinct = (event, group, scalar, stratum)",
        module="AlgoTrace")
