from . import numeric
def run(tier, seed):
    return numeric.run("C07", tier, seed, lambda e, i: True,
        "Generator(i) for every i in -2..DoF+2, hat/Vee/Bracket/inner/weightedNorm/InnerWeights on integer (exact) and real tangents; distinct = (event, group, scalar, stratum)")
