"""C08: NormDrift.tla (finite integer model: the norm deviation stays in the band for histories of unbounded
length; negative control without renormalisation) + long histories of the real library in an assertion-enabled
and an NDEBUG build, every logged step validated by NormTrace.tla (exact norm from the coefficient bits)."""
import os, json
import vlib

KEYS = ["SO2_d", "SE2_d", "SO3_d", "SE3_d", "SE_2_3_d", "SGal3_d", "SE3_f", "SO3_f"]
def run(tier, seed):
    rep = vlib.Report("C08", tier, seed)
    rep.assumptions = ["NormDrift.tla assumes a rounding envelope of R = 4 units (2^-52) per product; the envelope is measured on every fully logged composed step (item model_R) and a larger value is reported as an internal error of the model",
                       "after the fully logged prefix, steps are summarised per 1000 (min/max deviation computed by the recorder in long double; the recorder's own deviation is cross-checked against the exact value on every fully logged step, item selfd)",
                       "adversarial single-operation programs run on pure rotations: repeated squaring of a translation overflows in any arithmetic"]
    rc, out = vlib.tlc("NormDrift", overrides=False, workers=8, timeout=900, extra=["-noGenerateSpecTE"])
    st = vlib.tlc_stats(out); rep.states += st[0]; rep.transitions += st[1]
    if rc != 0 or "No error has been found" not in out: raise vlib.ModelError("NormDrift.tla invariants failed:\n" + out[-2000:])
    rep.exhaustive = True
    rc2, out2 = vlib.tlc("NormDrift", cfg="NormDriftNoRenorm.cfg", overrides=False, workers=1, timeout=300, extra=["-noGenerateSpecTE"])
    ok = "Invariant Bounded is violated" in out2 or "Invariant Accepted is violated" in out2
    rep.extra["negative_control_without_renormalisation_violates_invariant"] = ok
    if not ok: raise vlib.ModelError("negative control failed: NormDrift without renormalisation not rejected")
    # the same bound as an INDUCTIVE invariant, discharged symbolically by Apalache (Init => Bounded; Bounded /\ Next => Bounded')
    wd0 = vlib.workdir("C08apalache")
    ok_ind = []
    for args in (["--init=Init", "--inv=Bounded", "--length=0"], ["--init=IndInit", "--inv=Bounded", "--length=1"]):
        r = vlib.sh(["timeout", "600", "apalache-mc", "check", "--out-dir=" + wd0, "--run-dir=" + os.path.join(wd0, "run")] + args + [os.path.join(vlib.SPEC, "NormDriftInd.tla")], cwd=wd0)
        if "EXITCODE: OK" in r.stdout: ok_ind.append(True)
        elif "EXITCODE: ERROR (12)" in r.stdout or "violat" in r.stdout.lower(): raise vlib.ModelError("Apalache: Bounded is not inductive:\n" + r.stdout[-1500:])
        else: ok_ind.append(False)     # tool unavailable / timed out: the TLC fixpoint above already covers the claim
    rep.extra["apalache_inductive_invariant_discharged"] = all(ok_ind) and len(ok_ind) == 2
    keys = KEYS if tier == "thorough" else KEYS[:7]
    steps = 5000 if tier == "quick" else 150000
    full = 400 if tier == "quick" else 2500
    progs = [("walk", steps, full), ("square", steps // 2, full // 2), ("chain", steps // 2, full // 2), ("pluseq_small", steps // 2, full // 2), ("between", steps // 2, full // 2)]
    # the same programs with the registers behind Eigen::Map views over user buffers (shorter: the arithmetic is the same,
    # what differs is which assignment / renormalisation code path the storage kind selects)
    progs += [(p + "_view", max(n // 5, 500), f // 2) for (p, n, f) in progs]
    plan_lines = ["%s %s %d %d" % (p, k, n, f) for k in keys for (p, n, f) in progs]
    wd = vlib.workdir("C08")
    plan = os.path.join(wd, "plan.txt"); open(plan, "w").write("\n".join(plan_lines) + "\n")
    jobs = []
    for k in keys:
        base = ["REC_GROUP=" + vlib.key_type(k), 'REC_KEY="%s"' % k]
        jobs.append(dict(tag="rec_walk_%s_assert" % k, src="rec_walk.cpp", defs=base))
        jobs.append(dict(tag="rec_walk_%s_ndebug" % k, src="rec_walk.cpp", defs=base + ["NDEBUG"]))
    res = vlib.build_many(jobs)
    bad = {t: l for t, (p, l) in res.items() if p is None}
    if bad:
        import sys
        for t, l in bad.items(): sys.stderr.write(l[-1500:])
        raise vlib.BuildError(bad)
    bins = {t: p for t, (p, l) in res.items()}
    # each binary reads the same plan and picks its key
    outs = []
    import concurrent.futures as cf
    def one(t):
        op = os.path.join(wd, "trace_%s.ndjson" % t)
        r = vlib.sh(["timeout", "2400", bins[t], plan, op, str(seed)])
        return t, r.returncode, r.stdout, open(op).read().splitlines() if os.path.exists(op) else []
    with cf.ThreadPoolExecutor(vlib.NCPU) as ex: outs = list(ex.map(one, sorted(bins)))
    lines = []; total_steps = 0
    for t, rc3, so, ls in outs:
        rep.traces += 1
        if rc3 != 0 or not ls or '"e":"terminate"' in ls[-1]:
            rep.violations.append(("%s: history aborted (rc=%d) %s" % (t, rc3, so[-200:]), json.dumps({"e": "crash", "binary": t})))
        lines += [l for l in ls if '"e":"terminate"' not in l]
    results, st2 = vlib.validate(lines, wd, module="NormTrace")
    rep.states += st2[0]; rep.transitions += st2[1]
    # the model's rounding envelope is an assumption: exceeding it is an error of the model, not of manif
    worstR = max([b for r in results for a, b in r["items"] if a == "model_R"] or [0])
    rep.extra["measured_rounding_units_max_milli_of_R6"] = worstR
    rep.judge(results, lambda e, i: i != "model_R")
    # only when the implementation itself stays inside the band does a larger rounding step discredit the MODEL;
    # if the recorded history violates the property, that is the finding (e.g. a tree without renormalisation)
    if worstR > 1000 and not rep.violations:
        raise vlib.ModelError("NormDrift rounding envelope exceeded on a recorded step (ratio %.2f): the model must be revised" % (worstR / 1000.0))
    for r in results:
        h = json.loads(r["ev"])
        if h["e"] == "wsum": total_steps += h["to"] - h["from"] + 1
    rep.cells = set((json.loads(r["ev"])["g"]["k"], json.loads(r["ev"]).get("sc"), json.loads(r["ev"]).get("mode"), json.loads(r["ev"]).get("op", json.loads(r["ev"])["e"])) for r in results if "g" in json.loads(r["ev"]))
    rep.extra["history_steps_total"] = total_steps
    return rep.finish("programs {random walk over 14 operation kinds, repeated squaring, alternating products, += of tangents in the small-angle branch, between chains} x groups x {assertion-enabled, NDEBUG}; distinct = (group, scalar, build mode, operation)")
