from . import hist
def run(tier, seed):
    return hist.run("C09", tier, seed, [("", [], "g++", [])],
        "behaviours of Manif.tla: all histories of length 2 of the reduced machine explored by TLC; every single call (operation x destination x operand registers x output mask) of the full machine and simulated histories of length 14 replayed on the real library per group; distinct = (group, scalar, op, storage kind of dst/a/b, mask)",
        ["bit-identity across optional-output subsets, storage kinds and repetitions is demanded (sound for builds with -ffp-contract=off; verified on the unchanged tree at -O1)",
         "operations outside the machine's catalogue (act, adj, tangent arithmetic beyond negation) are covered functionally by C01..C07, not by this history check"])
