import os, json
import vlib
from . import hist
def cross_history(rep, tier, seed):
    """several executions of harness/rec_mixed (many groups in one process, different orders): every call must
    return the same bits in every execution and on every repetition (spec/CrossHistory.tla)"""
    p, log = vlib.build("rec_mixed", "rec_mixed.cpp", flags=["-std=c++14"])
    if p is None: raise vlib.BuildError({"rec_mixed": log})
    wd = vlib.workdir("C09cross")
    lines = []
    for k in range(6 if tier == "quick" else 40):
        op = os.path.join(wd, "mixed_%d.ndjson" % k)
        r = vlib.sh(["timeout", "300", p, op, str(seed * 1000 + k)])
        ls = open(op).read().splitlines() if os.path.exists(op) else []
        if r.returncode != 0: rep.violations.append(("rec_mixed aborted with %d" % r.returncode, json.dumps({"e": "crash"})))
        lines += [l for l in ls if l.endswith("}")]; rep.traces += 1
    results, st = vlib.validate_shard(lines, wd, "CrossHistory", 0)
    rep.states += st[0]; rep.transitions += st[1]
    return results
def run(tier, seed):
    return hist.run("C09", tier, seed, [("", [], "g++", [])],
        "behaviours of Manif.tla: all histories of length 2 of the reduced machine explored by TLC; every single call (operation x destination x operand registers x output mask) of the full machine and simulated histories of length 14 replayed on the real library per group; distinct = (group, scalar, op, storage kind of dst/a/b, mask)",
        ["bit-identity across optional-output subsets, storage kinds and repetitions is demanded (sound for builds with -ffp-contract=off; verified on the unchanged tree at -O1)",
         "static helpers shared between groups are exercised by several executions with 21 group types interleaved in different orders (CrossHistory.tla)"],
        extra=cross_history)
