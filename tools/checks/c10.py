from . import hist
def run(tier, seed):
    return hist.run("C10", tier, seed,
        [("_un", ["REC_UNALIGNED"], "g++", []), ("_asan", [], "clang++", ["-fsanitize=address", "-fno-omit-frame-pointer"])],
        "the same behaviours as C09 replayed with views over an UNALIGNED user buffer (slots one scalar off alignment, 4 guard cells around each) and in an AddressSanitizer build; after every call the whole buffer image is checked cell by cell; distinct = (group, scalar, op, storage kind of dst/a/b, mask)",
        ["reads outside the viewed buffer are observed by AddressSanitizer (clang-14) as a crash of the recorder, which no action of the model allows; they are not decided by the model",
         "Bundle element<i>() sub-views are covered by C11"])
