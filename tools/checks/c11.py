"""C11: BundleLayout.tla (layout enumeration, covering predicate, direct-product laws of the model, plan) ->
one recorder per layout (rec_core instantiated for the Bundle type) -> ManifTrace.tla, whose group model handles
bundle descriptors generically (block-diagonal matrix group), plus layout / element-wise / exact-zero items."""
import os, json
import vlib

def bundle_type(layout, scalar="double"):
    names = {"R1": "manif::R1", "R3": "manif::R3"}
    return "manif::Bundle<%s, %s>" % (scalar, ", ".join(names.get(k, "manif::" + k) for k in layout))

def collect(rep, tier, seed, prop="C11", ops=None):
    """layouts from BundleLayout.tla -> recorders -> validated events (not yet judged); ops: restrict to these operations"""
    rc, out = vlib.tlc("BundleLayout", env={"TIER": tier}, workers=4, timeout=1200, extra=["-noGenerateSpecTE"])
    st = vlib.tlc_stats(out); rep.states += st[0]; rep.transitions += st[1]
    lays = [x for x in vlib.printed_json(out) if isinstance(x, dict) and "layout" in x]
    if rc != 0 or "No error has been found" not in out or not lays:
        raise vlib.ModelError("BundleLayout.tla failed:\n" + out[-3000:])
    lays.sort(key=lambda x: x["key"])
    jobs = [dict(tag="rec_core_" + x["key"], src="rec_core.cpp", flags=["-std=c++14", "-include", os.path.join(vlib.HARN, "rec_bundle.h")],
                 defs=["REC_IS_BUNDLE", "REC_GROUP=" + bundle_type(x["layout"]), 'REC_KEY="%s"' % x["key"]]) for x in lays]
    res = vlib.build_many(jobs)
    bad = {t: l for t, (p, l) in res.items() if p is None}
    wd = vlib.workdir(prop + "bundle")
    for t, l in bad.items():
        # a layout that cannot be instantiated is itself a violation of the property (and of C19)
        rep.violations.append(("bundle layout %s does not compile: %s" % (t, " ".join(l.split("error")[1:2])[:300]), json.dumps({"e": "nocompile", "layout": t})))
    cells = []
    for x in lays: cells += [dict(c, prop=prop) for c in x["cells"] if ops is None or c["op"] in ops]
    cells.sort(key=lambda c: json.dumps(c, sort_keys=True))
    plan = os.path.join(wd, "plan.txt"); vlib.write_plan(cells, plan)
    bins = {x["key"]: res["rec_core_" + x["key"]][0] for x in lays if res["rec_core_" + x["key"]][0]}
    lines = []
    for k, rc2, so, ls in vlib.record(bins, plan, wd, seed):
        rep.traces += 1
        if rc2 != 0:
            # the library aborted inside a Bundle operation (Eigen assertion, crash): no action of the model allows that
            rep.violations.append(("recorder %s aborted with %d after %d events: %s" % (k, rc2, len(ls), so[-300:].replace("\n", " ")), json.dumps({"e": "crash", "key": k})))
            ls = [l for l in ls if l.endswith("}")]
        lines += ls
    results, st2 = vlib.validate(lines, wd, nshards=vlib.NCPU)
    rep.states += st2[0]; rep.transitions += st2[1]
    rep.extra["layouts"] = [x["key"] for x in lays]
    return results

def run(tier, seed):
    rep = vlib.Report("C11", tier, seed)
    rep.assumptions = ["value/Jacobian items are compared with the block-diagonal matrix model at the tolerances of ManifTrace.tla in strata where the element groups have no recorded finding; layout tables, element offsets, element-wise equality and off-block zeros are exact",
                       "layouts: covering set (every group first/middle/last/alone/repeated; every two offset tables distinguishable) in quick, plus all layouts of length <= 2 and two of length 5 in thorough"]
    results = collect(rep, tier, seed)
    rep.judge(results, lambda e, i: True)
    rep.cells = set((json.dumps(json.loads(r["ev"])["g"]), json.loads(r["ev"])["e"], json.loads(r["ev"]).get("st", "")[:40]) for r in results)
    return rep.finish("layouts enumerated by BundleLayout.tla; per layout every Bundle operation on 3 strata + layout tables + element-wise equality; distinct = (layout, event, stratum)")
