"""C12: generic in the scalar -- dual numbers (ceres::Jet work-alike), float, ceres functors.

PLAN     the C05 strata plan (Strata.tla PlanOf(C05)) restricted to the operations that exist for every
         scalar {compose inverse between rplus lplus rminus lminus log exp act} and to the double keys
EXECUTE  harness/rec_jet.cpp per group: each planned call over double (all analytic Jacobians), over
         ceres::Jet<double,N> on X (+) d (d = 0, unit dual parts) and over float; manif's ceres functors
         through raw pointers into guarded buffers
VALIDATE spec/JetTrace.tla: standard events (primal parts + AD Jacobians in rec_core's format) against the
         matrix-group model exactly as ManifTrace does; jetcmp / functor / fltcmp events against the double
         run of the same call."""
import os, json, hashlib, random, re
import vlib

KEYS = ["SO2_d", "SE2_d", "SO3_d", "SE3_d", "SE_2_3_d", "SGal3_d", "R3_d"]
OPS = ["compose", "inverse", "between", "rplus", "lplus", "rminus", "lminus", "log", "exp", "act"]
STUB = os.path.join(vlib.HARN, "ceres_stub")
# groups whose closed forms have recorded accuracy defects (known_findings.json, property C05): the
# model-referenced items of their standard events are decided by C05, not here
DEFECT_GROUPS = ("SE2", "SGal3")

def stub_hash():
    fs = sorted(os.path.join(STUB, "ceres", f) for f in os.listdir(os.path.join(STUB, "ceres")))
    return vlib.file_hash(fs)[:16]

def build():
    return vlib.build_core(KEYS, src="rec_jet.cpp", extra_flags=["-I" + STUB], extra_defs=["REC_STUB_HASH=" + stub_hash()], prefix="rec_jet")

def select(cells, tier, seed):
    """restrict the C05 plan to C12's operations / keys; the quick tier keeps a deterministic (seeded)
    sub-sample that still contains every (op, key, rotation cell) and every (op, key, linear cell)"""
    cells = [dict(c, prop="C12") for c in cells if c["op"] in OPS and c["key"] in KEYS]
    cells.sort(key=lambda c: json.dumps(c, sort_keys=True))
    if tier == "thorough":
        return cells
    rnd = random.Random(seed)
    by = {}
    for c in cells:
        by.setdefault((c["op"], c["key"], c["thc"]), []).append(c)
    keep = []
    for k in sorted(by):
        grp = by[k]
        rnd.shuffle(grp)
        lins = set()
        n = 0
        for c in grp:                       # one cell per linear magnitude of this rotation cell, at most QUICK_PER
            if c["linc"] in lins or n >= QUICK_PER: continue
            lins.add(c["linc"]); n += 1
            keep.append(dict(c, reps=1))
    keep.sort(key=lambda c: json.dumps(c, sort_keys=True))
    return keep
QUICK_PER = 2

JET_ITEMS = ("jetcmp", "functor", "fltcmp")

def derived_known(known):
    """in-memory C12 images of the C05 findings of the defect groups: where the analytic Jacobian of SE2 /
    SGal3 is itself inaccurate (catastrophic cancellation just above the small-angle switch-over) the AD
    derivative of the same closed forms suffers a DIFFERENT cancellation, so the two disagree there although
    neither differentiates wrongly.  Such disagreements are reported as KNOWN-FINDING (never silently
    dropped) and only for the groups that have a C05 finding in known_findings.json."""
    out = []
    for k in known:
        if k.get("property") != "C05" or k.get("group") not in DEFECT_GROUPS: continue
        out.append({"id": k["id"].replace("C05", "C12"), "property": "C12", "group": k["group"], "scalar": ["d", "j"],
                    "event": ["jetcmp", "functor"], "item": ["ad_vs_analytic_Ja", "ad_vs_analytic_Jb", "ad_vs_analytic_Jt", "dual"],
                    "text": "AD-derived and analytic Jacobians of %s disagree inside the region of the recorded C05 defect (%s): %s"
                            % (k["group"], k["id"], k["text"].split(" [")[0])})
    return out

def run(tier, seed):
    rep = vlib.Report("C12", tier, seed)
    rep.assumptions = [
        "the real Ceres and autodiff libraries are not installed: the dual scalar is the work-alike harness/ceres_stub/ceres/jet.h (value + N partials, arithmetic as in ceres/jet.h incl. f/g = f*(1/g)); ceres::AutoDiff{Manifold,LocalParameterization,CostFunction} are declared only, so the make_*_autodiff helpers of manif/ceres/ceres_utils.h are never instantiated and manif/autodiff/*.h (needs autodiff::dual) is out of reach",
        "manif/ceres/ceres.h, constants.h, manifold.h, local_parametrization.h, objective.h, constraint.h are compiled unmodified (is_ad<Jet>, Constants<Jet> come from the library)",
        "Jets are lifted coefficient-wise (bit preserving), not through cast<>(); X (+) d is manif's own plus() over Jets with d = 0 carrying unit dual parts; f(X (+) d) (-) f(X) is manif's own minus() over Jets (plain difference for tangent / vector results)",
        "standard events (AD Jacobian against the matrix-group model): only J* items of SO2, SO3, SE3, SE_2_3, Rn are judged here; SE2 and SGal3 Jacobian items (findings KF-C05-SE2, KF-C05-SGal3 of known_findings.json) and all value items (C01..C04) are decided by their own properties",
        "jetcmp / functor / fltcmp items are judged for every group; AD-vs-analytic disagreements of SE2 / SGal3 inside the recorded C05 defect regions are reported as KNOWN-FINDING",
        "float runs use the float cells of the same plan without the 1e6 linear magnitude (as Strata.tla FloatOK); the double twin runs on the widened float coefficients re-normalised in double",
        "tolerances are in spec/JetTrace.tla: primal 4u*scale, AD vs analytic 1e-6 unit-aware (JTol), functor output 4u*scale, float 2^10*2^-24*scale",
        "TLC + spec/Fix.tla fixed point with BigInteger overrides; recorder compiled with g++ -O1 -ffp-contract=off from the tree under test",
        "uniformity is claimed over the enumerated strata cells and the drawn points, not proved between them"]
    cells, st = vlib.plan_cells("C05", tier)
    rep.states += st[0]; rep.transitions += st[1]
    cells = select(cells, tier, seed)
    bins = build()
    wd = vlib.workdir("C12")
    plan = os.path.join(wd, "plan.txt"); vlib.write_plan(cells, plan)
    recs = vlib.record(bins, plan, wd, seed)
    lines = []
    for k, rc, so, ls in recs:
        rep.traces += 1
        if rc != 0:
            raise vlib.ModelError("recorder %s exited with %d: %s" % (k, rc, so[-500:]))
        lines += ls
    if any('"e":"terminate"' in l for l in lines):
        raise vlib.ModelError("a recorder terminated abnormally (uncaught exception inside manif over Jet/float)")
    results, st2 = vlib.validate(lines, wd, module="JetTrace")
    rep.states += st2[0]; rep.transitions += st2[1]
    # group-dependent selection of the judged items of STANDARD events (see assumptions)
    kinds = {}
    nan_at_zero = 0
    for r in results:
        h = json.loads(r["ev"])
        kinds[h["e"] if h["e"] in JET_ITEMS else "standard"] = kinds.get(h["e"] if h["e"] in JET_ITEMS else "standard", 0) + 1
        if h["e"] == "functor" and h.get("dual_finite") == 0: nan_at_zero += 1
        if h["e"] in JET_ITEMS: continue
        gk = h["g"].get("k")
        r["items"] = [(i, v) for i, v in r["items"] if i == "finite" or (i.startswith("J") and gk not in DEFECT_GROUPS)]
    rep.known = rep.known + derived_known(rep.known)
    rep.judge(results, lambda e, i: True)
    rep.extra["plan_cells"] = len(cells)
    rep.extra["events_by_kind"] = kinds
    rep.extra["objective_dual_nonfinite_at_zero_residual"] = nan_at_zero
    worst = {}
    for (e, gs, item), v in rep.worst.items():
        cls = "primal" if item == "primal" else "ad_vs_analytic" if item.startswith("ad_vs") else "fltcmp" if e == "fltcmp" else "functor_" + item if e == "functor" else "standard_" + item[:1]
        if v > worst.get(cls, (-1,))[0]: worst[cls] = (v, "%s/%s/%s" % (e, gs, item))
    rep.extra["worst_by_class_milli"] = {k: list(v) for k, v in sorted(worst.items())}
    print("C12 worst ratios (thousandths of the tolerance): " + ", ".join("%s=%d (%s)" % (k, v[0], v[1]) for k, v in sorted(worst.items())))
    return rep.finish("cells = Strata.tla PlanOf(C05) restricted to {compose inverse between rplus lplus rminus lminus log exp act} x 7 double groups"
                      + (" (quick: seeded sub-sample keeping every (op, group, rotation cell) with %d linear cells)" % QUICK_PER if tier != "thorough" else "")
                      + "; per cell: standard event via Jet (model-referenced), jetcmp (Jet vs double of the same call), fltcmp, ceres functors on rplus/rminus cells; distinct = (event, group, scalar, theta/lin bucket)")
