"""C13: construction, accessors, cast<>() and validation of rotation data.
rec_ctor.cpp is built per group twice (assertion-enabled and -DNDEBUG); it enumerates every public
constructor / setter form of its group over an argument catalogue (angles over many periods, gimbal
configurations, both quaternion hemispheres, norms on both sides of the acceptance threshold) and logs one
ctor event per construction plus an accessor event per constructed element; CtorTrace.tla recomputes the
matrix model of every form and the accept / reject decision from the logged argument bits."""
import os, json, collections
import vlib

KEYS = ["SO2_d", "SE2_d", "SO3_d", "SE3_d", "SE_2_3_d", "SGal3_d", "R3_d", "SE3_f", "SO2_f"]
MODES = [("assert", [], "rec_ctor_as"), ("ndebug", ["NDEBUG"], "rec_ctor_nd")]

RULE = ("per group and build mode (MANIF_ASSERT active / -DNDEBUG) every public constructor and setter form x the argument "
        "catalogue of harness/rec_ctor.cpp (angles +-1e3*2pi+delta, multiples of pi/2, within 1e-9 of +-pi, tiny, denormal; "
        "roll/pitch/yaw incl. pitch = +-pi/2 +- {0,1e-9}; quaternions in both hemispheres, w = 0, w ~ 0; translations / "
        "velocities / time 0, 1e-8..1e6; rotation data scaled by 1 + s*eps for 19 values of s on both sides of the threshold) "
        "plus `reps` random draws per form; distinct = (group, scalar, build mode, form)")

def run(tier, seed):
    rep = vlib.Report("C13", tier, seed)
    rep.assumptions = [
        "tolerance model of spec/ManifTrace.tla: working precision 2^10 u scaled by exact magnitude bounds plus 2^10 |delta| for the operands' own norm deviation",
        "threshold semantics: must reject when | |c_rot| - 1 | >= eps + 8u, must accept when <= eps - 8u, either in between (the code compares a rounded norm)",
        "TLC + spec/Fix.tla fixed point (195 fractional bits) with BigInteger overrides checked against the pure definitions by FixSelfTest",
        "recorders compiled with g++ -O1 -ffp-contract=off from the include tree, assertion-enabled and with -DNDEBUG",
        "assignment of a raw coefficient vector (operator=) is not a construction: its acceptance of non-unit data is reported as an observation, not judged",
        "an angle theta is logged with an integer k and modelled as rotation by theta - 2 pi k (same rotation for every integer k)",
        "uniformity is claimed over the enumerated forms x catalogue and the drawn points, not proved between them"]
    reps = 2 if tier == "quick" else 20
    wd = vlib.workdir("C13")
    plan = os.path.join(wd, "plan.txt")
    with open(plan, "w") as f:
        for k in KEYS:
            f.write("ctor %s C13 - - - - - - - %d\n" % (k, reps))
    lines = []
    for mode, defs, prefix in MODES:
        bins = vlib.build_core(KEYS, src="rec_ctor.cpp", prefix=prefix, extra_defs=defs)
        wdm = os.path.join(wd, mode); os.makedirs(wdm)
        for k, rc, so, ls in vlib.record(bins, plan, wdm, seed):
            rep.traces += 1
            if rc != 0:
                rep.violations.append(("recorder %s (%s) aborted with %d after %d events: %s" % (k, mode, rc, len(ls), so[-300:].replace("\n", " ")), json.dumps({"e": "crash", "key": k, "mode": mode})))
                ls = [l for l in ls if l.endswith("}")]
            elif not ls:
                raise vlib.ModelError("recorder %s (%s) logged no events: %s" % (k, mode, so[-500:]))
            if any('"e":"terminate"' in x for x in ls[-1:]):
                raise vlib.ModelError("recorder %s (%s) terminated abnormally" % (k, mode))
            bad = [x for x in ls if '"mode":"%s"' % mode not in x]
            if bad:
                raise vlib.ModelError("recorder %s built for mode %s logged another mode: %s" % (k, mode, bad[0][:200]))
            lines += ls
    results, st = vlib.validate(lines, wd, module="CtorTrace", nshards=vlib.NCPU)
    rep.states += st[0]; rep.transitions += st[1]
    rep.judge(results, lambda e, i: True)

    # coverage: (group, scalar, build mode, form); per-form and per-item tables
    cells = set(); forms = collections.defaultdict(set); per_kind = collections.Counter(); exc = collections.Counter()
    worst = {}; obs = collections.Counter()
    for r in results:
        h = json.loads(r["ev"]); gk = h["g"]["k"]
        cells.add((gk, h["sc"], h["mode"], h["form"]))
        per_kind[h["e"]] += 1
        if h["e"] == "ctor":
            forms[gk + "_" + h["sc"]].add(h["form"])
            exc[(h["mode"], h["exc"])] += 1
        for item, ratio in r["items"]:
            if ratio > worst.get(item, -1): worst[item] = ratio
            if item.startswith("obs_"): obs[(item, gk, h["sc"])] += 1
    rep.cells = cells
    rep.extra["events_per_kind"] = dict(per_kind)
    rep.extra["forms_per_group"] = {k: len(v) for k, v in sorted(forms.items())}
    rep.extra["ctor_outcomes"] = {"%s/%s" % k: v for k, v in sorted(exc.items())}
    rep.extra["worst_ratio_milli_per_item"] = dict(sorted(worst.items()))
    rep.extra["rpy_order"] = "R = Rz(yaw) * Ry(pitch) * Rx(roll) (model of CtorTrace.tla; the code builds AngleAxis(yaw,Z)*AngleAxis(pitch,Y)*AngleAxis(roll,X))"
    if obs:
        rep.extra["observations"] = {"%s/%s_%s" % k: v for k, v in sorted(obs.items())}
        na = sum(v for k, v in obs.items() if k[0] == "obs_assignment_accepts_nonunit")
        nf = sum(v for k, v in obs.items() if k[0] == "obs_derived_feedback_rejected")
        if na:
            print("NOTE property=C13 observation (not judged): `X = coefficient_vector` (operator= of the group classes) accepted non-unit rotation data "
                  "in the assertion-enabled build in %d events (the checked LieGroupBase::operator= is hidden by MANIF_GROUP_ASSIGN_OP)" % na)
        if nf:
            print("NOTE property=C13 observation (not judged): an accepted element with eps/3 < | |q|-1 | < eps was rejected when its own rotation()/isometry() "
                  "was fed back to a constructor in the assertion-enabled build in %d events (the unnormalised matrix conversion triples the deviation)" % nf)
    return rep.finish(RULE)
