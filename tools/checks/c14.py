"""C14: const API safe under concurrency.

 model        StaticInit.tla (cfg StaticInit: C++11 guard protocol -- I1 exactly-once, I2 no use before completion,
              I3 results equal the sequential ones, L termination under fairness, all interleavings of up to 3
              threads / 5 calls), negative controls: StaticInitBrokenFlag, StaticInitBrokenAssign (+ the matrix
              protocol x invariant, + StaticInitCycle for L);
 binding (i)  tools/static_scan.py re-extracts every static of the headers; it must equal spec/StaticInitData.json
              (the table the model constants were written from), instantiate to exactly the table TLC prints from
              StaticInitPlan.tla, and map edge by edge onto the Deps constant TLC prints from StaticInit.tla;
 binding (ii) the schedule plans enumerated by TLC (StaticInitPlan.tla: every static the contended one) are run, one
              FRESH process per plan, 8 threads released from a barrier, in a ThreadSanitizer build (clang) and a plain
              build (g++); per-thread result bits are validated by StaticInitTrace.tla against a single-threaded
              reference process; a TSan report becomes a `race` event, which the trace spec never allows."""
import os, json, glob, time, re, collections
import concurrent.futures as cf
import vlib
import static_scan

SHAPE_ORDER = {"direct": 0, "late": 1, "ancestors": 2, "deps_first": 3, "siblings": 4}
INVS = ("I1", "I2", "I3")

def _cfg_text(protocol, invs, liveness):
    # small bound: the matrix only asks which invariant is able to reject which defect (2 threads suffice)
    return ("SPECIFICATION Spec\nCONSTANTS T = 2\n MaxLen = 2\n Budget = 3\n Protocol = \"%s\"\n Statics <- StaticsManif\n"
            " Deps <- DepsManif\n ConstOps <- ConstOpsManif\n ExpectCycle = FALSE\n" % protocol
            + "".join("INVARIANT %s\n" % i for i in invs) + ("PROPERTY L\n" if liveness else "") + "CHECK_DEADLOCK TRUE\n")

def _violated(out):
    m = re.search(r"Error: Invariant (\w+) is violated", out)
    if m: return m.group(1)
    m = re.search(r"Error: Temporal property (\w+) was violated", out)
    if m: return m.group(1)
    if "Error: Deadlock reached" in out: return "Deadlock"
    return None

def model_runs(rep, wd, tier):
    """all TLC runs of the model, concurrently; returns (model constants printed by StaticInit, plan spec lines)"""
    jobs = {"cxx11": dict(cfg="StaticInit.cfg", workers=6, timeout=900),
            "flag": dict(cfg="StaticInitBrokenFlag.cfg", workers=2, timeout=300),
            "assign_after": dict(cfg="StaticInitBrokenAssign.cfg", workers=2, timeout=300),
            "cycle": dict(cfg="StaticInitCycle.cfg", workers=1, timeout=300),
            "plan": dict(module="StaticInitPlan", cfg="StaticInitPlan.cfg", workers=1, timeout=300)}
    # matrix protocol x single invariant: which invariant rejects which defect
    for prot in ("flag", "assign_after"):
        for inv in INVS:
            p = os.path.join(wd, "mx_%s_%s.cfg" % (prot, inv))
            open(p, "w").write(_cfg_text(prot, [inv], False))
            jobs["mx:%s:%s" % (prot, inv)] = dict(cfg=p, workers=2, timeout=300)
    def one(k):
        j = jobs[k]; t0 = time.time()
        rc, out = vlib.tlc(j.get("module", "StaticInit"), cfg=j["cfg"], workers=j["workers"], overrides=False,
                           timeout=j["timeout"], extra=["-noGenerateSpecTE"])
        return k, rc, out, time.time() - t0
    with cf.ThreadPoolExecutor(len(jobs)) as ex:
        res = {k: (rc, out, dt) for k, rc, out, dt in ex.map(one, sorted(jobs))}
    tl = {}
    for k, (rc, out, dt) in sorted(res.items()):
        st = vlib.tlc_stats(out); rep.states += st[0]; rep.transitions += st[1]
        tl[k] = {"distinct_states": st[0], "states_generated": st[1], "seconds": round(dt, 1), "violated": _violated(out), "rc": rc}
    rep.extra["tlc_runs"] = tl
    rc, out, dt = res["cxx11"]
    if rc != 0 or "No error has been found" not in out:
        raise vlib.ModelError("StaticInit.tla (Protocol = cxx11) does not satisfy its properties:\n" + out[-3000:])
    consts = [c for c in vlib.printed_json(out) if isinstance(c, dict) and c.get("model") == "StaticInit"]
    if not consts: raise vlib.ModelError("StaticInit.tla did not print its constants")
    # negative controls
    neg = {"flag_protocol_violates": tl["flag"]["violated"], "assign_after_protocol_violates": tl["assign_after"]["violated"],
           "cyclic_table_violates": tl["cycle"]["violated"],
           "matrix": {prot: {inv: tl["mx:%s:%s" % (prot, inv)]["violated"] == inv for inv in INVS} for prot in ("flag", "assign_after")}}
    rep.extra["negative_controls"] = neg
    if tl["flag"]["violated"] not in INVS:
        raise vlib.ModelError("negative control failed: hand-rolled flag protocol not rejected:\n" + res["flag"][1][-2000:])
    if tl["assign_after"]["violated"] not in INVS:
        raise vlib.ModelError("negative control failed: assign-after-construct protocol not rejected:\n" + res["assign_after"][1][-2000:])
    if tl["cycle"]["violated"] not in ("L", "Deadlock"):
        raise vlib.ModelError("negative control failed: cyclic dependency table does not violate termination:\n" + res["cycle"][1][-2000:])
    for inv in INVS:                                    # every invariant is able to fail on some defect
        if not any(neg["matrix"][p][inv] for p in neg["matrix"]):
            raise vlib.ModelError("negative control failed: invariant %s is violated by neither broken protocol" % inv)
    rc, out, dt = res["plan"]
    cells = vlib.printed_json(out)
    if rc != 0 or not cells:
        raise vlib.ModelError("StaticInitPlan.tla failed:\n" + out[-3000:])
    return consts[0], cells

# ------------------------------------------------------------------------------------------------
def bind_table(rep, table, baseline, consts, cells):
    """scanner table == baseline; instantiation per group == table of StaticInitPlan; edges map onto StaticInit's Deps"""
    for what, line in static_scan.compare(table, baseline):
        rep.violations.append((what, line))
    model = baseline["model"]
    def mismatch(what, **kw):
        d = {"e": "model_mismatch", "p": "C14", "g": {"k": "scan"}, "_module": "StaticInitTrace", "what": what}; d.update(kw)
        rep.violations.append((what, json.dumps(d)))
    # (a) constants of StaticInit.tla as printed by TLC == the abstract table of the baseline
    if sorted(consts["statics"]) != sorted(model["abstract_statics"]) or {k: list(v) for k, v in consts["deps"].items()} != model["abstract_deps"]:
        raise vlib.ModelError("constants printed by StaticInit.tla differ from spec/StaticInitData.json model.abstract_*")
    cls = {s["id"]: s.get("model_class", "?") for s in baseline["statics"]}
    # (b) instantiate the SCANNED table for every group of the catalogue
    inst = {}
    for d, g in model["group_of_dir"].items():
        mine = [s for s in table["statics"] if s["scope"] == "function" and
                (os.path.dirname(s["file"]) == "manif/impl" or os.path.dirname(s["file"]) == "manif/impl/" + d)]
        own_w = [s for s in mine if s["name"] == "W" and os.path.dirname(s["file"]) != "manif/impl"]
        if own_w: mine = [s for s in mine if not (s["name"] == "W" and os.path.dirname(s["file"]) == "manif/impl")]
        ids = {s["id"]: "%s.%s" % (g, s["name"]) for s in mine}
        for s in mine:
            deps = sorted(ids[x] for x in s["deps"] if x in ids)
            c = cls.get(s["id"], "?")
            if c == "InnerW" and not deps: c = "Leaf"            # Rn: Generator builds the matrix on the fly
            inst[ids[s["id"]]] = {"deps": deps, "class": c, "function": s["function"], "id": s["id"]}
    tla = {c["static"]: c for c in cells if c.get("kind") == "static"}
    for name in sorted(set(inst) | set(tla)):
        a, b = inst.get(name), tla.get(name)
        if a is None: mismatch("StaticInitPlan.tla has static %s which the scanner does not find in the headers" % name, static=name)
        elif b is None: mismatch("the headers instantiate static %s (%s) which StaticInitPlan.tla does not have" % (name, a["id"]), static=name)
        else:
            if sorted(b["deps"]) != a["deps"]:
                mismatch("static %s: dependencies in the headers %s, in StaticInitPlan.tla %s" % (name, a["deps"], sorted(b["deps"])), static=name)
            if b["class"] != a["class"]:
                mismatch("static %s: model class %s by the baseline annotation, %s in StaticInitPlan.tla" % (name, a["class"], b["class"]), static=name)
            fn = re.sub(r"<.*?>", "", a["function"]).split("::")
            op = model["owner_op"].get(fn[-1]) or {"GeneratorEvaluator": "Generator", "InnerWeightsEvaluator": "InnerWeights"}.get(fn[0])
            if op is None or not b["op"].split(".", 1)[1].startswith(op):
                mismatch("static %s is owned by %s, StaticInitPlan.tla reaches it through %s" % (name, a["function"], b["op"]), static=name)
    # (c) every edge of the instantiated table is an edge of the abstract table StaticInit.tla was checked on
    ci = model["class_instances"]; adeps = {k: set(v) for k, v in consts["deps"].items()}
    for name, a in sorted(inst.items()):
        if a["class"] not in ci:
            mismatch("static %s has no counterpart in StaticInit.tla (class %s)" % (name, a["class"]), static=name); continue
        for dname in a["deps"]:
            dc = inst[dname]["class"]
            if not any(y in adeps.get(x, ()) for x in ci[a["class"]] for y in ci.get(dc, [])):
                mismatch("dependency %s -> %s (%s -> %s) is not an edge of the Deps constant of StaticInit.tla" % (name, dname, a["class"], dc), static=name)
        if not a["deps"] and any(adeps.get(x) for x in ci[a["class"]]):
            mismatch("static %s has no dependency in the headers but its model class %s has" % (name, a["class"]), static=name)
    rep.extra["scanner"] = {"statics": len(table["statics"]), "function_local": sum(1 for s in table["statics"] if s["scope"] == "function"),
                            "class_level": sum(1 for s in table["statics"] if s["scope"] != "function"),
                            "non_const": [s["id"] for s in table["statics"] if not s["const"]],
                            "not_initialised_in_declaration": [s["id"] for s in table["statics"] if not s["init_in_decl"]],
                            "written_later": [s["id"] for s in table["statics"] if s["assigned_later"]],
                            "dependency_edges": sum(len(s["deps"]) for s in table["statics"]),
                            "cycles": table["cycles"], "cycles_over_approx": table["cycles_over_approx"],
                            "files": table["files"], "functions": table["functions"], "instantiated_statics": len(inst)}
    return inst

# ------------------------------------------------------------------------------------------------
def plan_string(threads): return "/".join(",".join(t) for t in threads)

def launch(binp, build, mode, planstr, outp, seed, pid, wd, tag):
    """one fresh process; returns (rc, event lines, tsan report text or None)"""
    logp = os.path.join(wd, "tsan_%s" % tag)
    env = dict(os.environ)
    if build == "tsan": env["TSAN_OPTIONS"] = "exitcode=66 log_path=%s" % logp
    r = vlib.sh(["timeout", "120", binp, mode, planstr, outp, str(seed), str(pid)], env=env)
    lines = open(outp).read().splitlines() if os.path.exists(outp) else []
    if os.path.exists(outp): os.remove(outp)
    report = None
    logs = sorted(glob.glob(logp + ".*"))
    if logs or r.returncode == 66:
        report = "".join(open(p, errors="replace").read() for p in logs) or r.stdout
        for p in logs: os.remove(p)
    return r.returncode, lines, report, r.stdout

def run(tier, seed):
    rep = vlib.Report("C14", tier, seed)
    rep.assumptions = [
        "data-race freedom at the level of the C++ memory model is OBSERVED by ThreadSanitizer in the schedules that were run, not decided by TLC; "
        "the model decides the initialisation protocol (exactly once, no use before completion, sequential results, termination) on all interleavings "
        "of up to 3 threads / 5 calls over the abstract table chain(Identity->setIdentity::zero->Zero::t) + fan(InnerWeights::W->2 generators) + leaf",
        "that the compiler implements [stmt.dcl]/4 (thread-safe initialisation of function-local statics) as modelled by Protocol = cxx11 is an assumption "
        "about g++/clang++ with -std=c++11 (no -fno-threadsafe-statics); the scanner only establishes that every static of the headers has the shape "
        "the protocol applies to (const, initialised in its declaration, never written later, acyclic dependencies)",
        "K generators are abstracted to 2, 8 real threads to 3 model threads; class-level static data members (LieGroupBase::_, Constants<Jet/Dual/Real>::eps) "
        "are initialised during static initialisation, outside the lazy-initialisation model",
        "the OS scheduler chooses the interleaving of a launch: the plans fix who goes for which static first, the barrier makes the first uses overlap, "
        "many launches sample schedules; no claim is made about schedules that did not occur",
        "dependency edges are extracted best effort through a name table (direct calls in the initialiser, thin wrappers); the cycle check additionally uses "
        "the over-approximated call graph by simple name"]
    wd = vlib.workdir("C14")
    # builds and model runs overlap
    bjobs = [dict(tag="rec_threads", src="rec_threads.cpp", flags=["-pthread"]),
             dict(tag="rec_threads_tsan", src="rec_threads.cpp", compiler="clang++", flags=["-fsanitize=thread", "-g", "-O1", "-pthread"])]
    with cf.ThreadPoolExecutor(2) as ex:
        fb = ex.submit(vlib.build_many, bjobs)
        fm = ex.submit(model_runs, rep, wd, tier)
        consts, cells = fm.result()
        built = fb.result()
    rep.exhaustive = True
    # (i) scanner
    baseline = json.load(open(static_scan.BASELINE))
    table = static_scan.scan(vlib.REPO)
    inst = bind_table(rep, table, baseline, consts, cells)
    for i, (what, line) in enumerate(rep.violations):                  # replayable through StaticInitTrace
        d = json.loads(line); d["_module"] = "StaticInitTrace"; rep.violations[i] = (what, json.dumps(d))
    # (ii) schedules
    bad = {t: l for t, (p, l) in built.items() if p is None}
    if bad:
        # a mutated header may legitimately stop compiling; that is not a verdict about races
        for t, l in bad.items(): print("BUILD FAILED %s\n%s" % (t, l[-2000:]))
        raise vlib.BuildError(bad)
    bins = {"plain": built["rec_threads"][0], "tsan": built["rec_threads_tsan"][0]}
    plans = [c for c in cells if c.get("kind") == "plan"]
    plans.sort(key=lambda p: (SHAPE_ORDER.get(p["shape"], 9), p["g"], p["contended"]))
    for i, p in enumerate(plans): p["id"] = i + 1
    catalogue = sorted({c["op"] for c in cells if c.get("kind") in ("static", "constop")} | {o for p in plans for t in p["threads"] for o in t})
    if tier == "quick":
        sched = [("tsan", p, r) for r in range(2) for p in plans] + [("plain", p, 0) for p in plans]
        par = 3
    else:
        sched = [("tsan", p, r) for r in range(12) for p in plans] + [("plain", p, r) for r in range(7) for p in plans]
        par = 4
    seeds = sorted({(b, seed * 1000 + r) for b, p, r in sched})
    # single-threaded reference processes: the whole catalogue, one fresh process per (binary, seed)
    ref = {}
    def refrun(bs):
        b, s = bs
        rc, lines, report, so = launch(bins[b], b, "seq", ",".join(catalogue), os.path.join(wd, "ref_%s_%d.ndjson" % (b, s)), s, 0, wd, "ref_%s_%d" % (b, s))
        return b, s, rc, lines, report, so
    with cf.ThreadPoolExecutor(4) as ex:
        for b, s, rc, lines, report, so in ex.map(refrun, seeds):
            if rc != 0 or len(lines) != len(catalogue):
                raise vlib.ModelError("single-threaded reference process failed (build %s, rc=%d): %s" % (b, rc, (report or so)[-1500:]))
            for l in lines:
                e = json.loads(l); ref[(b, s, e["op"])] = e["out"]
    def one(i):
        b, p, r = sched[i]; s = seed * 1000 + r
        t0 = time.time()
        rc, lines, report, so = launch(bins[b], b, "mt", plan_string(p["threads"]), os.path.join(wd, "run_%d.ndjson" % i), s, p["id"], wd, "run_%d" % i)
        return i, rc, lines, report, so, time.time() - t0
    t0 = time.time(); events = []; races = 0; crashes = 0; contended = collections.Counter(); overlap = collections.Counter()
    with cf.ThreadPoolExecutor(par) as ex:
        outs = list(ex.map(one, range(len(sched))))
    for i, rc, lines, report, so, dt in outs:
        b, p, r = sched[i]; s = seed * 1000 + r
        rep.traces += 1; contended[p["contended"]] += 1
        common = {"p": "C14", "g": {"k": p["g"]}, "sc": "d", "plan": p["id"], "contended": p["contended"], "shape": p["shape"], "build": b,
                  "launch": i, "seed": s, "_module": "StaticInitTrace", "st": "contended=%s,%s,%s" % (p["contended"], p["shape"], b)}
        nops = sum(len(t) for t in p["threads"])
        if report is not None:
            races += 1
            d = {"e": "race"}; d.update(common); d["rc"] = rc; d["threads"] = p["threads"]
            rl = [x for x in report.splitlines() if x.strip()]
            d["report"] = [x[:300] for x in rl[:30]] + [x[:300] for x in rl[30:] if x.startswith("SUMMARY")][:3]
            events.append(json.dumps(d))
        if rc not in (0, 66) or len(lines) != nops:
            crashes += 1
            d = {"e": "crash"}; d.update(common); d["rc"] = rc; d["threads"] = p["threads"]; d["events"] = len(lines); d["expected"] = nops
            d["output"] = so[-1500:]
            events.append(json.dumps(d))
        first = []
        for l in lines:
            e = json.loads(l); e.update(common)
            e["ref"] = ref.get((b, s, e["op"]), [])
            if e.get("i") == 1: first.append((e.get("t0", 0), e.get("t1", 0)))
            events.append(json.dumps(e))
        # evidence that first operations really overlapped in time (not a verdict): the second thread to start
        # its first operation did so before the earliest first operation had returned
        if len(first) > 1 and sorted(first)[1][0] < min(z for _, z in first):
            overlap[b] += 1
    rep.extra["launches"] = {"total": len(sched), "tsan": sum(1 for x in sched if x[0] == "tsan"), "plain": sum(1 for x in sched if x[0] == "plain"),
                             "threads_per_launch": 8, "wall_s": round(time.time() - t0, 1), "tsan_reports": races, "crashes": crashes,
                             "plans": len(plans), "statics_contended": len(contended), "min_launches_per_contended_static": min(contended.values()) if contended else 0,
                             "reference_processes": len(seeds),
                             "launches_with_overlapping_first_operations": dict(overlap)}
    missing = sorted(set(inst) - set(contended))
    if missing and not rep.violations:
        # every static of the (baseline-conforming) table must be the contended one in some launch; when the scanner has
        # already reported statics that are not in the baseline, those are the violation and have no plan by construction
        raise vlib.ModelError("statics never contended by any plan: %s" % missing)
    results, st2 = vlib.validate(events, wd, module="StaticInitTrace")
    rep.states += st2[0]; rep.transitions += st2[1]
    rep.judge(results, lambda e, i: True)
    cells_ = set()
    for r in results:
        h = json.loads(r["ev"]); cells_.add((h.get("contended"), h.get("shape"), h.get("build"), h["e"]))
    rep.cells = cells_
    for f in glob.glob(os.path.join(wd, "shard_*")): os.remove(f)
    return rep.finish("StaticInit.tla exhaustive for 3 threads / 5 calls (cxx11 protocol; broken protocols and cyclic table rejected); every static "
                      "found by the header scanner equals the baseline table and is the contended one in at least one 8-thread fresh-process launch "
                      "under ThreadSanitizer; distinct = (contended static, plan shape, build, event kind)")
