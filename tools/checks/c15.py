from . import numeric
def run(tier, seed):
    return numeric.run("C15", tier, seed, lambda e, i: True,
        "cells = Strata.tla PlanOf(C15): interpolate x {SLERP,CUBIC,CNSMOOTH} x parameter kind {0,1,random,dyadic,just below 0,just above 1,NaN} x end-point cell x relative-rotation cell x zero/non-zero end velocities x group; smoothing_phi for degrees 0..6 on a grid; distinct = (group, scalar, method/parameter kind/stratum)",
        module="AlgoTrace", subsample=4)
