from . import numeric
def run(tier, seed):
    return numeric.run("C16", tier, seed, lambda e, i: True,
        "cells = Strata.tla PlanOf(C16): {biinvariant, average, frechet_left, frechet_right} x cloud kind {1,2,3,10,(50) points, identical points, empty} x centre cell (incl. rotation pi-1e-2..pi) x group; each with a permuted, a left- and a right-translated copy; distinct = (group, scalar, routine/kind/stratum)",
        module="AlgoTrace")
