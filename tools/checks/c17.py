"""C17: DeCasteljau.tla (exhaustive box, refinement of the windows by the transcribed loops) + conformance of
the real decasteljau() on every configuration of the box (one-hot trajectory in R^16, random Lie group
trajectories), each run in a forked child under a timeout, also in an AddressSanitizer build."""
import os, json
import vlib

def run(tier, seed):
    rep = vlib.Report("C17", tier, seed)
    rep.assumptions = ["the one-hot trajectory reveals exactly which inputs are read with which weights only in the vector space Rn (linearity); on Lie groups window ends and the degree-2 geodesic law are checked instead",
                       "out-of-bounds reads are observed through the AddressSanitizer build (clang-14), not decided by the model",
                       "box N<=16, k<=4 (MaxN, MaxK of DeCasteljau.cfg)"]
    rc, out = vlib.tlc("DeCasteljau", workers=8, overrides=False, timeout=600, extra=["-noGenerateSpecTE"])
    st = vlib.tlc_stats(out); rep.states += st[0]; rep.transitions += st[1]
    if rc != 0 or "No error has been found" not in out:
        raise vlib.ModelError("DeCasteljau.tla (fixed formula) does not satisfy its invariants:\n" + out[-3000:])
    cfgs = [c for c in vlib.printed_json(out) if isinstance(c, dict) and "ppw" in c]
    # negative control: the pinned formula must violate Refines (shows the invariants can fail)
    rc2, out2 = vlib.tlc("DeCasteljau", cfg="DeCasteljauPinned.cfg", overrides=False, timeout=300, extra=["-noGenerateSpecTE"])
    rep.extra["negative_control_pinned_formula_violates_Refines"] = "Invariant Refines is violated" in out2
    if not rep.extra["negative_control_pinned_formula_violates_Refines"]:
        raise vlib.ModelError("negative control failed: pinned formula not rejected:\n" + out2[-2000:])
    rep.exhaustive = True
    wd = vlib.workdir("C17")
    jobs = [dict(tag="rec_decast", src="rec_decast.cpp", flags=["-std=c++14"]),
            dict(tag="rec_decast_asan", src="rec_decast.cpp", compiler="clang++", flags=["-std=c++14", "-fsanitize=address", "-fno-omit-frame-pointer", "-g"])]
    res = vlib.build_many(jobs)
    for t, (p, log) in res.items():
        if p is None: raise vlib.BuildError({t: log})
    cfgs.sort(key=lambda c: (c["N"], c["d"], c["k"], c["closed"]))
    lines = []
    for c in cfgs:
        lines.append("%d %d %d %d %d onehot" % (c["N"], c["d"], c["k"], c["closed"], c["valid"]))
    groups = ["SE2", "SO3", "B1"] if tier == "quick" else ["SE2", "SO3", "SE3", "B1"]     # B1 = Bundle<SE2, SO3, R3>
    for c in cfgs:
        if c["valid"] and (tier == "thorough" or (c["N"] <= 9 and c["k"] <= 2)):
            for g in groups:
                lines.append("%d %d %d %d %d %s" % (c["N"], c["d"], c["k"], c["closed"], c["valid"], g))
    # split the plan over processes
    n = vlib.NCPU
    def one(i):
        pp = os.path.join(wd, "plan_%d.txt" % i); open(pp, "w").write("\n".join(lines[i::n]) + "\n")
        op = os.path.join(wd, "trace_%d.ndjson" % i)
        binp = res["rec_decast_asan"][0] if i % 8 == 0 else res["rec_decast"][0]
        r = vlib.sh(["timeout", "600", binp, pp, op, str(seed)], env=dict(os.environ, ASAN_OPTIONS="detect_leaks=0"))
        return (r.returncode, r.stdout, open(op).read().splitlines() if os.path.exists(op) else [])
    import concurrent.futures as cf
    with cf.ThreadPoolExecutor(n) as ex:
        outs = list(ex.map(one, range(n)))
    evs = []
    for rc3, so, ls in outs:
        rep.traces += 1
        if rc3 != 0:
            # the recorder as a whole was killed (timeout): decasteljau does not terminate in time on this tree
            rep.violations.append(("recorder shard killed after %d events (rc=%d): decasteljau did not terminate in time" % (len(ls), rc3), json.dumps({"e": "dc", "exc": "timeout", "note": "whole shard"})))
        evs += ls
    if len(evs) != len(lines) and not rep.violations:
        raise vlib.ModelError("recorded %d events for %d planned configurations" % (len(evs), len(lines)))
    results, st2 = vlib.validate(evs, wd, module="DeCasteljauTrace")
    rep.states += st2[0]; rep.transitions += st2[1]
    rep.judge(results, lambda e, i: True)
    rep.cells = set((json.loads(r["ev"]).get("N"), json.loads(r["ev"]).get("d"), json.loads(r["ev"]).get("k"), json.loads(r["ev"]).get("closed"), json.loads(r["ev"])["e"], str(json.loads(r["ev"]).get("g"))) for r in results)
    rep.extra["configurations"] = len(cfgs)
    return rep.finish("every (N,d,k,closed) of the box N<=16,k<=4 enumerated by TLC (plus guard cases just outside), each run on the real decasteljau; distinct = (N,d,k,closed,event kind,group)")
