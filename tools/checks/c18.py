from . import numeric
def run(tier, seed):
    return numeric.run("C18", tier, seed, lambda e, i: True,
        "cells = Strata.tla PlanOf(C18): X.isApprox / == on elements with coordinates 0..1e9, both hemispheres and the negated twin, pairs at tangent distance {0, eps/1000, eps/64, 64 eps} for eps in {Constants::eps, 1e-9, 1e-3}; tangent isApprox in the relative and the absolute regime; distinct = (group, scalar, stratum)",
        module="AlgoTrace", subsample=8)
