"""C19: the documented API instantiates for every group, scalar and storage, and forwards to the canonical member.
PLAN     TLC enumerates spec/ApiMatrix.tla: one state per applicable cell (entry, group, scalar, storage).
EXECUTE  per (group, scalar, storage) batch one generated translation unit with one client function per cell, each
         under a `#line 1 "cell_<index>"` marker.  Batches are compiled with -fsyntax-only (quick) or compiled,
         linked and run (thorough; in quick a seed-chosen sample of batches).  When a translation unit does not
         compile, the cells named by the diagnostics are recorded as nocompile and the remaining cells are compiled
         again in smaller units (the compiler reports an error inside a template only at its first point of
         instantiation, so one bad cell can hide others), bisecting when a failure cannot be attributed.
VALIDATE nocompile(cell) is never enabled by the model: a violation unless covered by known_findings.json
         (property C19, regex `stratum` on "entry/group/scalar/storage").  Recorded executions (result of the entry
         next to the result of its canonical member on equal operands) are checked by spec/ApiTrace.tla: the cell is
         in the matrix and the results are equal bit for bit."""
import os, re, json, hashlib, random, itertools, concurrent.futures as cf
import vlib, api_entries as api

HEAVY = {"SGal3": 6, "SE_2_3": 5, "SE3": 5, "B_R2_SO3_R1_SE3": 4, "B_SE2_R3": 3, "SO3": 2, "SE2": 2, "R3": 1, "SO2": 1}
QUICK_RUN_SAMPLE = 5
CELL_RE = re.compile(r"\bcell_(\d+)\b")
ERR_RE = re.compile(r"\berror:|undefined reference")
SERIAL = itertools.count(1)

def stratum(c): return "%s/%s/%s/%s" % (c["entry"], c["g"], c["sc"], c["k"])

def known_c19(known, st):
    """a recorded finding covers a nocompile cell when its `stratum` regex matches entry/group/scalar/storage"""
    for k in known:
        if k.get("property") == "C19" and "stratum" in k and k.get("event", "nocompile") in ("nocompile", "*") and re.search(k["stratum"], st):
            return k
    return None

def plan():
    rc, out = vlib.tlc("ApiMatrix", workers=4, overrides=False, timeout=300, extra=["-noGenerateSpecTE"])
    cells = [c for c in vlib.printed_json(out) if isinstance(c, dict) and "entry" in c and "canon" in c]
    if rc != 0 or "No error has been found" not in out or not cells:
        raise vlib.ModelError("ApiMatrix.tla does not satisfy its assumptions/invariants:\n" + out[-3000:])
    st = vlib.tlc_stats(out)
    if st[0] != len(cells):
        raise vlib.ModelError("ApiMatrix: %d cells printed for %d states" % (len(cells), st[0]))
    names = set(c["entry"] for c in cells) | set(c["canon"] for c in cells)
    for what, model, table in (("entries", names, set(api.SNIPPETS)), ("groups", set(c["g"] for c in cells), set(api.GROUPS)),
                               ("scalars", set(c["sc"] for c in cells), set(api.SCALARS)), ("storages", set(c["k"] for c in cells), set(api.STORAGES))):
        if model != table:
            raise vlib.ModelError("%s of spec/ApiMatrix.tla and tools/api_entries.py differ: only in the model %s, only in the table %s"
                                  % (what, sorted(model - table), sorted(table - model)))
    cells.sort(key=lambda c: (c["g"], c["sc"], c["k"], c["entry"]))
    return cells, st

def first_error(out):
    return next((l for l in out.splitlines() if ERR_RE.search(l)), out[-300:]).strip()[:400]

def attribute(out):
    """compiler output -> {cell index: first error message of a diagnostic that names the cell} (warnings are off,
    so a cell is named only by an error inside it or by the instantiation trace of an error it requires)"""
    diag, pending = {}, []
    for line in out.splitlines():
        ids = [int(i) for i in CELL_RE.findall(line)]
        if ERR_RE.search(line):
            for i in pending + ids: diag.setdefault(i, line.strip()[:400])
            pending = []
        else:
            pending += ids
    return diag

class Batch:
    def __init__(self, key, idx, cells, wd):
        self.key, self.idx, self.cells, self.wd = key, idx, cells, wd      # idx: cell indices of this batch
        self.tag = "c19_%s_%s_%s" % key
        self.ok, self.bad = [], {}                # compiled cells; cell index -> diagnostic
        self.binary, self.built = None, None      # executable and the cells it contains
        self.prelude_ok, self.unattributed, self.rebuilt = None, [], False
        self.compiles = 0; self.events = []; self.crash = None

    def source(self, live, run):
        s = api.prelude(*self.key) + "".join(api.cell_function(i, self.cells[i]["entry"], self.cells[i]["canon"]) for i in live)
        return s + (api.main_function([(i, self.cells[i]["entry"], self.cells[i]["canon"]) for i in live]) if run else "")

    def cache_path(self, src):
        key = hashlib.sha256((vlib.repo_hash() + src + " ".join(vlib.BASE_FLAGS)).encode()).hexdigest()[:24]
        return os.path.join(vlib.CACHE, "bin", key, self.tag)

    def cached(self):
        return os.path.exists(self.cache_path(self.source(self.idx, True)))

    def gxx(self, live, run):
        """compile the cells `live` (-fsyntax-only, or a cached executable when `run`); returns (ok, output, binary)"""
        self.compiles += 1
        src = self.source(live, run)
        p = os.path.join(self.wd, "%s_%d.cpp" % (self.tag, next(SERIAL)))
        with open(p, "w") as f: f.write(src)
        if not run:
            r = vlib.sh(["g++"] + [f for f in vlib.BASE_FLAGS if f != "-O1"] + ["-fsyntax-only", p])
            return r.returncode == 0, r.stdout, None
        out = self.cache_path(src)
        if os.path.exists(out): return True, "", out
        os.makedirs(os.path.dirname(out), exist_ok=True)
        tmp = "%s.%d.tmp" % (out, os.getpid())
        r = vlib.sh(["g++"] + vlib.BASE_FLAGS + ["-DC19_RUN", p, "-o", tmp])
        if r.returncode != 0: return False, r.stdout, None
        os.rename(tmp, out)
        return True, r.stdout, out

    def execute(self, seed):
        outp = os.path.join(self.wd, self.tag + ".ndjson")
        r = vlib.sh(["timeout", "300", self.binary, outp, str(seed)])
        self.events = open(outp).read().splitlines() if os.path.exists(outp) else []
        if r.returncode != 0 or len(self.events) != len(self.built):
            self.crash = "rc=%d, %d of %d cells recorded, last: %s; %s" % (r.returncode, len(self.events), len(self.built),
                         self.events[-1][:120] if self.events else "-", r.stdout[-300:])

def chunks(xs, n):
    n = max(1, min(n, len(xs) // 12 or 1))
    return [xs[i::n] for i in range(n)] if len(xs) > 4 else [[x] for x in xs]

def compile_all(batches, runs, known):
    """rounds of independent compiler jobs (batch, cells, run?) until every cell is either compiled or attributed"""
    jobs = []
    for b in batches:
        kn = [i for i in b.idx if known_c19(known, stratum(b.cells[i]))]       # expected not to compile: kept apart
        jobs.append((b, [i for i in b.idx if i not in kn], b.key in runs))
        if kn: jobs.append((b, kn, False))
    while jobs:
        jobs.sort(key=lambda j: -(HEAVY.get(j[0].key[0], 3) * (3 if j[2] else 1) * (len(j[1]) + 40)))      # longest first
        with cf.ThreadPoolExecutor(vlib.NCPU) as ex:
            results = list(ex.map(lambda j: (j, j[0].gxx(j[1], j[2])), jobs))
        jobs = []
        for (b, live, run), (ok, out, binary) in results:
            halves = lambda u: [(b, h, False) for h in (u[:len(u) // 2], u[len(u) // 2:])]
            if not live:                                       # probe: the batch's prelude alone
                b.prelude_ok = ok
                for u, o in b.unattributed:
                    if not ok: b.bad.update({i: "prelude of the batch does not compile: " + first_error(out) for i in u})
                    elif len(u) == 1: b.bad[u[0]] = first_error(o)
                    else: jobs += halves(u)                    # bisect
                b.unattributed = []
            elif ok:
                b.ok += live
                if run: b.binary, b.built = binary, live
            else:
                sus = {i: d for i, d in attribute(out).items() if i in live}
                if sus:
                    b.bad.update(sus)
                    jobs += [(b, c, False) for c in chunks([i for i in live if i not in sus], 3)]
                elif run:                                      # not attributable (link step, main): decide the cells by syntax
                    b.crash = "build failed: " + first_error(out); b.rebuilt = True
                    jobs.append((b, live, False))
                elif b.prelude_ok is None:
                    if not b.unattributed: jobs.append((b, [], False))
                    b.unattributed.append((live, out))
                elif not b.prelude_ok: b.bad.update({i: "prelude of the batch does not compile" for i in live})
                elif len(live) == 1: b.bad[live[0]] = first_error(out)
                else: jobs += halves(live)
        if not jobs:   # executables for the batches to run whose first build failed: the cells that survived
            for b in batches:
                if b.key in runs and b.ok and (b.built is None or sorted(b.built) != sorted(b.ok)) and not b.rebuilt:
                    b.rebuilt = True; ok = sorted(b.ok); b.ok = []
                    jobs.append((b, ok, True))

def run(tier, seed):
    rep = vlib.Report("C19", tier, seed)
    rep.assumptions = ["the compiler (g++ 12, -std=c++11, system Eigen 3.4) is the oracle for 'compiles and links'; the model contributes the enumeration of the matrix, the applicability rules and the forwarding oracle",
                       "const views are declared `const Eigen::Map<const G>` as in docs/pages/cpp/On-the-use-with-Ceres.md; algorithms over containers take std::vector of owning objects; static helpers are called on the owning type",
                       "forwarding is decided on one random operand tuple per batch (seeded), bit for bit; Random()/setRandom() are compared under an equal std::srand seed",
                       "quick: -fsyntax-only for every cell, compile+link+run for a seed-chosen sample of batches (and for batches whose executable is already in the content-addressed cache); thorough: compile+link+run for every cell",
                       "Python bindings are outside the matrix"]
    cells, st = plan()
    rep.states += st[0]; rep.transitions += st[1]; rep.exhaustive = True
    wd = vlib.workdir("C19")
    groups = {}
    for i, c in enumerate(cells): groups.setdefault((c["g"], c["sc"], c["k"]), []).append(i)
    batches = [Batch(k, idx, cells, wd) for k, idx in sorted(groups.items())]
    if tier == "thorough":
        runs = set(b.key for b in batches)
    else:
        runs = set(b.key for b in random.Random(seed).sample(batches, QUICK_RUN_SAMPLE)) | set(b.key for b in batches if b.cached())
    compile_all(batches, runs, rep.known)
    todo = [b for b in batches if b.binary and b.built]
    with cf.ThreadPoolExecutor(vlib.NCPU) as ex:
        list(ex.map(lambda b: b.execute(seed), todo))
    # ---- verdicts: nocompile
    ncompiled = 0; evs = []
    for b in batches:
        if sorted(b.ok + list(b.bad)) != sorted(b.idx):
            raise vlib.ModelError("batch %s: %d cells neither compiled nor attributed" % (b.tag, len(b.idx) - len(b.ok) - len(b.bad)))
        ncompiled += len(b.ok)
        for i in b.ok: rep.cells.add((cells[i]["entry"], cells[i]["g"], cells[i]["sc"], cells[i]["k"]))
        for i, d in sorted(b.bad.items()):
            c = dict(cells[i]); c.update(e="nocompile", diag=d, st=stratum(cells[i]))
            k = known_c19(rep.known, c["st"])
            if k is not None:
                h = rep.known_hits.setdefault(k["id"], [0, 0, k]); h[0] += 1
            else:
                rep.violations.append(("nocompile %s: %s" % (c["st"], d[:260]), json.dumps(c, sort_keys=True)))
        if b in todo: rep.traces += 1; evs += b.events
        if b.crash:
            rep.violations.append(("crash %s/%s/%s: %s" % (b.key + (b.crash,)), json.dumps(dict(e="crash", g=b.key[0], sc=b.key[1], k=b.key[2], diag=b.crash))))
    # ---- verdicts: forwarding (trace validation)
    results, st2 = vlib.validate(evs, wd, module="ApiTrace", timeout=600)
    rep.states += st2[0]; rep.transitions += st2[1]
    keep = set(rep.cells)
    rep.judge(results, lambda e, i: True)
    rep.cells = keep
    rep.extra.update({"cells_total": len(cells), "cells_compiled_ok": ncompiled, "cells_nocompile": len(cells) - ncompiled,
                      "cells_run": len(evs), "batches": len(batches), "batches_run": rep.traces,
                      "compiler_invocations": sum(b.compiles for b in batches), "entries": len(set(c["entry"] for c in cells))})
    samples = [{"cell": cells[i], "client": api.statements(cells[i]["entry"]), "canonical": api.statements(cells[i]["canon"])}
               for i in random.Random(seed).sample(range(len(cells)), 3)]
    return rep.finish("every applicable cell (entry, group, scalar, storage) of ApiMatrix enumerated by TLC, each compiled as its own client function; "
                      "distinct = cells that compiled; events = cells compiled, linked, run and compared with their canonical member", extra_samples=samples)
