"""Common driver of C09 / C10: behaviours of the abstract machine spec/Manif.tla replayed on the real library
(harness/rec_hist) and validated by spec/ManifHistTrace.tla."""
import os, json, subprocess, shutil
import vlib, histplan

KEYS_Q = ["SO2_d", "SE2_d", "SO3_d", "SE3_d", "SE_2_3_d", "SGal3_d", "R3_d", "SE3_f", "SGal3_f", "B_SE2.R3.SO3_d", "B_SGal3.SO2_d"]
def key_defs(k):
    """(-D definitions, extra flags) of a recorder for group key k; keys B_<elem>.<elem>..._d are bundle layouts"""
    if k.startswith("B_"):
        from . import c11
        lay = k[2:].rsplit("_", 1)[0].split(".")
        return ["REC_GROUP=" + c11.bundle_type(lay), 'REC_KEY="%s"' % k], ["-include", os.path.join(vlib.HARN, "rec_bundle.h")]
    return ["REC_GROUP=" + vlib.key_type(k), 'REC_KEY="%s"' % k], []
KEYS_T = KEYS_Q + ["SO2_f", "SE2_f", "SO3_f", "SE_2_3_f", "R3_f"]

def _killpg(p):
    """kill timeout AND the JVM it started (the simulation never ends by itself)"""
    import signal
    try: os.killpg(os.getpgid(p.pid), signal.SIGKILL)
    except Exception: p.kill()

def simulate(n, depth_cfg, seed, timeout=120):
    """first n behaviours printed by TLC -simulate on Manif.tla (deterministic for a given seed)"""
    vlib.ensure_java()
    md = os.path.join(vlib.CACHE, "tlc", "sim_%d" % os.getpid()); os.makedirs(md, exist_ok=True)
    cmd = ["timeout", str(timeout), "java", "-XX:+UseParallelGC", "-Xss64m", "-cp", ":".join([vlib.JAR, vlib.CMJAR]), "tlc2.TLC",
           "-noGenerateSpecTE", "-simulate", "-seed", str(seed), "-depth", "40", "-workers", "1", "-metadir", md, "-config", depth_cfg, "Manif.tla"]
    p = subprocess.Popen(cmd, cwd=vlib.SPEC, stdout=subprocess.PIPE, stderr=subprocess.STDOUT, universal_newlines=True, start_new_session=True)
    res = []
    for line in p.stdout:
        line = line.rstrip("\n")
        if line.startswith('"[') and line.endswith('"'):
            res.append(json.loads(json.loads(line)))
            if len(res) >= n: break
        elif "Error:" in line or "violated" in line:
            _killpg(p); raise vlib.ModelError("Manif.tla simulation reported: " + line)
    _killpg(p); p.wait(); shutil.rmtree(md, ignore_errors=True)
    if len(res) < n: raise vlib.ModelError("Manif.tla simulation produced only %d of %d behaviours" % (len(res), n))
    return res

def run(prop, tier, seed, variants, rule, assumptions, extra=None):
    """variants: list of (suffix, extra_defs, compiler, flags)"""
    rep = vlib.Report(prop, tier, seed)
    rep.assumptions = assumptions
    # (1) exhaustive exploration of the abstract machine (reduced register file, all histories of length 2)
    rc, out = vlib.tlc("Manif", overrides=False, workers=8, timeout=900, extra=["-noGenerateSpecTE"])
    if rc != 0 or "No error has been found" not in out: raise vlib.ModelError("Manif.tla invariants failed:\n" + out[-2000:])
    st = vlib.tlc_stats(out); rep.states += st[0]; rep.transitions += st[1]
    # (2) every single call of the full machine (op x dst x operands x mask), exported as one-step behaviours
    rc, out = vlib.tlc("Manif", cfg="ManifOne.cfg", overrides=False, workers=4, timeout=900, extra=["-noGenerateSpecTE"])
    ones = [b for b in vlib.printed_json(out) if isinstance(b, list)]
    st = vlib.tlc_stats(out); rep.states += st[0]; rep.transitions += st[1]
    if rc != 0 or len(ones) < 1000: raise vlib.ModelError("ManifOne export failed (%d behaviours):\n%s" % (len(ones), out[-1500:]))
    ones.sort(key=lambda b: json.dumps(b, sort_keys=True))
    rep.extra["single_call_behaviours_total"] = len(ones)
    # (3) long histories by simulation
    nb = 40 if tier == "quick" else 400
    sims = simulate(nb, "ManifSim.cfg", seed)
    keys = KEYS_Q if tier == "quick" else KEYS_T
    wd = vlib.workdir(prop)
    jobs = []
    for suffix, defs, comp, flags in variants:
        for k in keys:
            kd, kf = key_defs(k)
            jobs.append(dict(tag="rec_hist_%s%s" % (k, suffix), src="rec_hist.cpp", compiler=comp,
                             defs=kd + defs, flags=["-std=c++14"] + kf + flags))
    res = vlib.build_many(jobs)
    bad = {t: l for t, (p, l) in res.items() if p is None}
    if bad:
        import sys
        for t, l in bad.items(): sys.stderr.write("BUILD FAILED %s\n%s\n" % (t, l[-2000:]))
        raise vlib.BuildError(bad)
    # distribute behaviours: every binary gets all simulated histories; the one-step behaviours are dealt out
    tags = sorted(res)
    per = {t: list(sims) for t in tags}
    # every binary replays EVERY single call (operation x destination x operand registers) once; the output mask of the
    # planned call is 0 here because each Jacobian-returning step is re-evaluated under all other masks anyway ("alts");
    # the thorough tier also replays the planned masks
    share = ones if tier == "thorough" else [b for b in ones if b[0]["mask"] == 0]
    rep.extra["single_call_behaviours_per_binary"] = len(share)
    for t in tags: per[t] += share
    def one(t):
        pp = os.path.join(wd, "plan_%s.txt" % t); open(pp, "w").write(histplan.to_plan(per[t]))
        op = os.path.join(wd, "trace_%s.ndjson" % t)
        r = vlib.sh(["timeout", "900", res[t][0], pp, op, str(seed)], env=dict(os.environ, ASAN_OPTIONS="detect_leaks=0:abort_on_error=0"))
        lines = open(op).read().splitlines() if os.path.exists(op) else []
        return t, r.returncode, r.stdout, lines
    import concurrent.futures as cf
    with cf.ThreadPoolExecutor(vlib.NCPU) as ex: outs = list(ex.map(one, tags))
    traces = []   # a trace = one behaviour of one binary (init ... steps)
    for t, rc, so, lines in outs:
        expected = sum(1 + len(b) for b in per[t])
        if rc != 0 or len(lines) != expected:
            # the implementation crashed / sanitizer fired: keep what was logged and add an event no action allows
            rep.violations.append(("%s: recorder exited with %d after %d of %d events: %s" % (t, rc, len(lines), expected, so[-300:].replace("\n", " ")), json.dumps({"e": "crash", "binary": t})))
            lines = [l for l in lines if l.endswith("}") and vlib.TERMINATE not in l]
        cur = []
        for ln in lines:
            if ln.startswith('{"e":"init"') and cur: traces.append(cur); cur = []
            cur.append(ln)
        if cur: traces.append(cur)
    rep.traces = len(traces)
    # shards must not split a behaviour: validate() interleaves lines, so build shards here
    n = vlib.NCPU
    shards = [[] for _ in range(n)]
    for i, tr in enumerate(traces): shards[i % n] += tr
    results = []
    def val(i):
        if not shards[i]: return [], (0, 0)
        return vlib.validate(shards[i], wd, module="ManifHistTrace", nshards=1, env=None) if False else vlib.validate_shard(shards[i], wd, "ManifHistTrace", i)
    with cf.ThreadPoolExecutor(n) as ex:
        for r, st2 in ex.map(val, range(n)):
            results += r; rep.states += st2[0]; rep.transitions += st2[1]
    if extra is not None: results = results + extra(rep, tier, seed)
    rep.judge(results, lambda e, i: True)
    rep.cells = set()
    for r in results:
        h = json.loads(r["ev"])
        if h["e"] == "step": rep.cells.add((json.dumps(h["g"]), h["sc"], h["op"], h["dst"][0], h["a"][0], h["b"][0], h["mask"]))
    rep.extra["behaviours_replayed"] = len(traces)
    rep.samples = [{"behaviour": [{k: s[k] for k in ("op", "dst", "a", "b", "mask", "res")} for s in sims[0][:6]]}]
    return rep.finish(rule)
