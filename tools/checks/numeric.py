"""Common driver of the numeric properties: PLAN (Strata.tla) -> EXECUTE (rec_core per group) ->
VALIDATE (ManifTrace.tla in parallel shards)."""
import os, json
import vlib

KEYS_Q = ["SO2_d", "SE2_d", "SO3_d", "SE3_d", "SE_2_3_d", "SGal3_d", "R3_d", "SE2_f", "SE3_f", "SGal3_f"]
KEYS_T = ["SO2_d", "SE2_d", "SO3_d", "SE3_d", "SE_2_3_d", "SGal3_d", "R3_d",
          "SO2_f", "SE2_f", "SO3_f", "SE3_f", "SE_2_3_f", "SGal3_f", "R3_f",
          "B1_d", "B2_d", "B1_f"]        # bundles (vlib.BUNDLE_KEYS) for the algorithms: Strata.tla GroupsB

ASSUME = ["tolerance model of spec/ManifTrace.tla (working precision 2^10 u scaled by exact magnitude bounds; Jacobians 1e-6 unit-aware)",
          "TLC + spec/Fix.tla fixed point (195 fractional bits) with BigInteger overrides checked against the pure definitions by FixSelfTest",
          "recorder compiled with g++ -O1 -ffp-contract=off from /repo/include",
          "uniformity is claimed over the enumerated strata cells and the drawn points, not proved between them",
          "bundles are covered by C11 (bundle = element-wise) composed with this property on the element groups"]

ALGO_OPS = {"interp", "phi", "avg", "tisapprox", "tarith", "misc"}
def run(prop, tier, seed, judged, rule, module="ManifTrace", subsample=None, extra_results=None, exhaustive=False):
    rep = vlib.Report(prop, tier, seed)
    rep.assumptions = list(ASSUME)
    cells, st = vlib.plan_cells(prop, tier)
    # the groups/scalars are those the plan names (Strata.tla GroupsQ): one recorder per key
    keys = [k for k in KEYS_T if any(c["key"] == k for c in cells)]
    unknown = set(c["key"] for c in cells) - set(KEYS_T)
    if unknown: raise vlib.ModelError("plan names unknown recorder keys %s" % sorted(unknown))
    rep.states += st[0]; rep.transitions += st[1]
    if subsample and tier == "quick":
        # deterministic sub-sample of the enumerated cells (the full product runs in the thorough tier)
        cells = [c for i, c in enumerate(cells) if (i + seed) % subsample == 0]
    wd = vlib.workdir(prop)
    core = [c for c in cells if c["op"] not in ALGO_OPS]; algo = [c for c in cells if c["op"] in ALGO_OPS]
    recs = []
    if core:
        bins = vlib.build_core(keys)
        plan = os.path.join(wd, "plan.txt"); vlib.write_plan(core, plan)
        recs += vlib.record(bins, plan, wd, seed)
    if algo:
        wd2 = os.path.join(wd, "algo"); os.makedirs(wd2)
        bins2 = vlib.build_core(keys, src="rec_algo.cpp", prefix="rec_algo")
        plan2 = os.path.join(wd2, "plan.txt"); vlib.write_plan(algo, plan2)
        recs += vlib.record(bins2, plan2, wd2, seed)
    lines = []
    for k, rc, so, ls in recs:
        rep.traces += 1
        if rc != 0:
            # the library aborted (assertion failure, crash, uncaught exception) on a planned valid input
            rep.violations.append(("recorder %s aborted with %d after %d events: %s" % (k, rc, len(ls), so[-300:].replace("\n", " ")), json.dumps({"e": "crash", "key": k})))
            ls = [l for l in ls if l.endswith("}") and '"e":"terminate"' not in l]
        lines += ls
    results, st2 = vlib.validate(lines, wd, module=module)
    rep.states += st2[0]; rep.transitions += st2[1]
    if extra_results is not None:
        results = results + extra_results(rep)
        rep.exhaustive = exhaustive
    rep.judge(results, judged)
    rep.extra["plan_cells"] = len(cells)
    planned = set((c["op"], c["key"], c["thc"], c["linc"]) for c in cells)
    rep.extra["planned_strata"] = len(planned)
    return rep.finish(rule)
