#!/usr/bin/env python3
"""(Calibration is an explicit act: VERIF_CALIB=1 tools/vcheck <id> --tier thorough --seed N on the unchanged /repo writes
.cache/calib_official/*_over.json; nothing else does.)
Regenerate known_findings.json from (a) the hand-written finding descriptions below and (b) the error
envelopes measured by calibration runs (.cache/calib/*_over.json, via mkfindings).  Run by hand after a
calibration sweep; the result is reviewed and committed.  Checks only READ known_findings.json."""
import json, subprocess, sys, collections
MARGIN = 16
TEXT = {
 "SE2": "SE2 closed forms built on (1-cos t)/t, (t-sin t)/t^2 ... lose accuracy just above the small-angle switch-over |t|>1.5e-7 (values: error ~ u/t; rjac/ljac third column ~ u/t^2; rjacinv/ljacinv third column is (0,0) up to |t|~1e-5 and ~ u/t^3 beyond)",
 "SE3": "SE3 translation part V(w) rho (and V^-1 in log): coefficient (1-cos t)/t^2 cancels just above the switch-over (error ~ u/t), coefficient (1+cos t)/(2 t sin t) of V^-1 cancels near pi (error ~ u/(pi-t))",
 "SE_2_3": "SE_2(3) uses the same V(w), V^-1(w) closed forms as SE3: accuracy loss ~ u/t just above the switch-over and ~ u/(pi-t) near pi",
 "SO3": "SO3 ljac/ljacinv closed forms: accuracy loss ~ u/t just above the switch-over and ~ u/(pi-t) near pi",
 "SGal3": "SGal3 blocks E, L, N2 use closed forms with t^4..t^6 denominators from t^2>eps resp. t^3>eps: error ~ u/t^2 .. u/t^4 between the switch-over and t~1e-2 (values and Jacobians); V^-1 near pi as for SE3",
}
FIXED = [
 ("C19", "0409c0d", "free functions inverse/rplus/lplus/plus/act/identity/zero/random of functions.h could not be instantiated (C04 aliases too)"),
 ("C19", "4d1fc05", "SGal3Tangent<float>::smallAdj() did not compile (hard-coded Eigen::Matrix3d)"),
 ("C01", "41a2bc5", "Rn::transform() returned an n x n matrix (identity with last column overwritten) instead of the homogeneous (n+1)x(n+1) matrix"),
 ("C11", "1efed53", "Bundle::transform() could not be instantiated (non-existent Eigen member element<>)"),
 ("C19", "57e41ce", "average() did not compile for one-dimensional groups (1x1 product assigned to a scalar) (C16 too)"),
 ("C02", "462d26a", "SGal3Tangent::exp: small-angle branch of fillE dropped W/6, translation error theta/6*|iota*nu| for all theta<1.49e-7 (C03 log too)"),
 ("C03", "eca1247", "SO3::log small-angle branch ignored the hemisphere: log(-q) = -log(q) for |vec(q)|<1.5e-7, w<0 (also SE3/SE_2_3/SGal3 log, rminus, lminus, between-based results)"),
 ("C15", "b6df369", "interpolate(CUBIC): Hermite basis h00/h01 swapped, returned B at t=0 and A at t=1"),
 ("C19", "3f6c3b4", "Jacobian * Tangent (and bracket/Bracket through it) did not compile for Eigen::Map / Map<const> tangents of any group"),
 ("C19", "a92df0e", "bracket/Bracket on Eigen::Map<const RnTangent> did not compile (traits named a const Map<RnTangent> base)"),
 ("C17", "70af163", "decasteljau: n_segments = floor((N-d)/((d-1)+1)) (misplaced parenthesis): too few windows; unsigned underflow and out-of-bounds reads for closed curves"),
]
def main():
    if "--fixed-only" in sys.argv:
        # keep findings/envelopes as committed, refresh only the fixed: lines
        doc = json.load(open("/verif/known_findings.json"))
        doc["fixed"] = ["fixed: property=%s %s %s" % f for f in FIXED]
        json.dump(doc, open("/verif/known_findings.json", "w"), indent=0); print("fixed list refreshed:", len(FIXED)); return
    findings = []
    for prop in ("C02", "C03", "C04", "C05", "C06"):
        env = json.loads(subprocess.check_output(["/verif/tools/mkfindings.py", prop, str(MARGIN)]).decode())
        byg = collections.defaultdict(dict)
        for k, v in env.items(): byg[k.split("|")[0]][k] = v
        for g in sorted(byg):
            findings.append({"id": "KF-%s-%s" % (prop, g), "property": prop, "group": g, "text": TEXT.get(g, g) + " [error envelope per (scalar, event, item, 3-octave bucket of theta, of pi-theta) measured on the pinned tree, margin x%d]" % MARGIN,
                             "envelope": byg[g]})
    for g, why in (("SE2", "SE2::inverse rebuilds the rotation from the angle (atan2, cos, sin), so X^-1*X carries a translation residual ~ u*|t| that exceeds eps once |t| >~ 1e2"),
                   ("SGal3", "X^-1*X of SGal3 cancels terms of size |time*velocity| and |translation|, leaving a residual ~ u*(|t| + |s*v|) that exceeds eps once coordinates are >~ 1e2")):
        findings.append({"id": "KF-C18-%s" % g, "property": "C18", "group": g, "event": "isapprox",
                         "item": ["reflexive", "reflexive_eq", "twin", "symmetric"], "lin_log2": [6, 99],
                         "text": "X == X, X.isApprox(X, eps), X vs its coefficient-negated twin and symmetry can fail for %s elements with coordinates >= 1e2: %s; isApprox compares log(Y^-1 X) component-wise with an ABSOLUTE eps (repair = a scale-aware comparison, a semantic change, not small and safe)" % (g, why)})
    try:
        prev = json.load(open("/verif/known_findings.json"))["findings"]
        findings += [f for f in prev if f["property"] in ("C12",)]     # exported from tools/checks/c12.py (its own calibration)
    except Exception: pass
    doc = {"comment": "Genuine defects of artivis/manif recorded rather than repaired (the repair would be a multi-site numerical rework of the closed forms, see DESIGN.md 2.8), and defects repaired by fix: commits. Read by tools/vlib.py; never written at run time. A finding covers an out-of-tolerance result only inside its input predicate (group, scalar, event, item, theta bucket, pi-theta bucket) and only up to the recorded bound (ratio error/tolerance in thousandths); anything else is reported as a VIOLATION.",
           "findings": findings,
           "fixed": ["fixed: property=%s %s %s" % f for f in FIXED]}
    json.dump(doc, open("/verif/known_findings.json", "w"), indent=0)
    print(len(findings), "findings,", sum(len(f.get("envelope", {})) for f in findings), "envelope buckets")
main()
