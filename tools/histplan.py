"""behaviours of spec/Manif.tla (TLC -simulate, JSON lines) -> plan text for harness/rec_hist"""
import json
def to_plan(behaviours):
    out = []
    for b in behaviours:
        # single calls start from a generic state (every register a generic rotation with non-zero linear part, so that a
        # wrong read of an aliased operand cannot be masked by a zero); longer histories start from random strata
        out.append("B g" if len(b) == 1 else "B")
        for s in b:
            out.append("S %s %s %s %s %d %d %s %s %s" % (s["op"], s["dst"], s["a"], s["b"], s["mask"], s["res"],
                       ",".join(map(str, s["ids"])) or "-", ",".join(map(str, s["post"]["g"])), ",".join(map(str, s["post"]["t"]))))
    return "\n".join(out) + "\n"
