"""behaviours of spec/Manif.tla (TLC -simulate, JSON lines) -> plan text for harness/rec_hist"""
import json
def to_plan(behaviours):
    out = []
    for b in behaviours:
        out.append("B")
        for s in b:
            out.append("S %s %s %s %s %d %d %s %s %s" % (s["op"], s["dst"], s["a"], s["b"], s["mask"], s["res"],
                       ",".join(map(str, s["ids"])) or "-", ",".join(map(str, s["post"]["g"])), ",".join(map(str, s["post"]["t"]))))
    return "\n".join(out) + "\n"
