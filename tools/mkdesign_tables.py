#!/usr/bin/env python3
"""regenerate the tables of DESIGN.md section 0.5 from evidence/, .cache/selftest.json and seeded/*/ (by hand)"""
import json, glob, os, re
ROOT = "/verif"
out = []
out.append("**Quick-tier coverage on the unchanged tree (from evidence/*.json, seed 1):**\n")
out.append("| id | events validated | distinct cells | TLC states | traces | wall s | known-finding events |")
out.append("|---|---|---|---|---|---|---|")
for f in sorted(glob.glob(ROOT + "/evidence/C*.json")):
    e = json.load(open(f)); c = e["coverage"]
    out.append("| %s | %s | %s | %s | %s | %s | %s |" % (e["property_id"], c.get("events_validated", c.get("evaluations")), c.get("distinct_nontrivial"), c.get("states"), c.get("traces_validated_against_impl"), e["wall_s"], sum(c.get("known_findings_hit", {}).values()) if isinstance(c.get("known_findings_hit"), dict) else ""))
out.append("\n**Seeded changes (independent sub-agents, given only the property text; each confirmed: patch = worktree diff, full suite passes, demonstration fails with / passes without):**\n")
out.append("| seeded change | property | what it needs to manifest | caught by | note |")
out.append("|---|---|---|---|---|")
for d in sorted(glob.glob(ROOT + "/seeded/*/")):
    m = json.load(open(d + "meta.json")); name = os.path.basename(d.rstrip("/"))
    res = json.load(open(d + "result.json"))["results"] if os.path.exists(d + "result.json") else {}
    caught = ", ".join("%s%s" % (k, "" if v["exit"] == 1 else " (missed)") for k, v in res.items()) or ", ".join(c.get("result", c.get("after_strengthening", ""))[:40] for c in m.get("checks_run", []))
    note = "; ".join(c.get("first_result", "") for c in m.get("checks_run", []) if c.get("first_result"))
    out.append("| `%s` | %s | %s | %s | %s |" % (name, m["property"], m.get("what_it_needs_to_manifest", "")[:220].replace("|", "/"), caught, note[:200].replace("|", "/")))
try:
    st = json.load(open(ROOT + "/.cache/selftest.json"))
    out.append("\n**Own mutant catalogue (tools/selftest.py; scratch copies of the headers, run with VERIF_REPO):**\n")
    out.append("| mutant | check | caught | violations |"); out.append("|---|---|---|---|")
    for k, v in sorted(st.items()):
        if isinstance(v, dict): out.append("| %s | %s | %s | %s |" % (k, v["check"], "yes" if v["caught"] else "NO (rc=%s)" % v["rc"], v["violations"]))
except Exception: pass
txt = "\n".join(out)
p = ROOT + "/DESIGN.md"; s = open(p).read()
if "SEEDED_TABLE_PLACEHOLDER" in s: s = s.replace("SEEDED_TABLE_PLACEHOLDER", "<!-- tables:begin -->\n" + txt + "\n<!-- tables:end -->")
else: s = re.sub(r"<!-- tables:begin -->.*<!-- tables:end -->", lambda m: "<!-- tables:begin -->\n" + txt + "\n<!-- tables:end -->", s, flags=re.S)
open(p, "w").write(s); print(txt[:1500])
