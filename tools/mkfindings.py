#!/usr/bin/env python3
"""Propose error envelopes for known findings from the over-tolerance buckets measured by calibration runs
(.cache/calib/*_over.json).  Output is reviewed by hand before it goes into known_findings.json; the checks
never call this."""
import json, glob, sys, collections
prop = sys.argv[1]; margin = float(sys.argv[2]) if len(sys.argv) > 2 else 8.0
obs = collections.defaultdict(float)
for f in glob.glob("/verif/.cache/calib_official/%s_*_over.json" % prop):
    for e, g, sc, item, tb, gb, v in json.load(open(f)):
        k = (g, sc, e, item, tb, gb); obs[k] = max(obs[k], v)
env = {}
for (g, sc, e, item, tb, gb), v in obs.items():
    # smooth over neighbouring theta buckets so that an unlucky draw next door is inside the envelope
    for d in (-1, 0, 1):
        tb2 = None if tb is None else tb + d
        if tb is None and d != 0: continue
        key = "|".join([g, sc, e, item, str(tb2), str(gb)])
        env[key] = max(env.get(key, 0), min(2000000000, v * margin))
    if gb is not None:
        for d in (-1, 1):
            key = "|".join([g, sc, e, item, str(tb), str(gb + d)])
            env[key] = max(env.get(key, 0), min(2000000000, v * margin))
print(json.dumps({k: int(env[k]) for k in sorted(env)}, indent=0))
