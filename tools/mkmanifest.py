#!/usr/bin/env python3
"""(re)generate MANIFEST.json from the table below and validate it against the schema"""
import json, os, sys
ROOT = "/verif"
CHECKS = {
 "C01": ("model_checking", "Groups.tla matrix model evaluated exactly by TLC; every recorded compose/inverse/act/identity/transform call of the real library over the Strata.tla cell product (both hemispheres, angles 0..pi, magnitudes 0..1e6, double+float) is validated against exact products of the operands' homogeneous matrices at working precision; the exhaustive lattice model ManifLattice.tla decides the group laws on exact sub-groups and its transitions are replayed bit-exactly", "TLA+ model (TLC, exact fixed point) + trace validation of recorded calls"),
 "C02": ("model_checking", "exp validated against the 48+ term matrix exponential series of hat(t) (LieMath.tla) evaluated exactly by TLC, over all 15 rotation cells x 6 linear magnitudes x all groups x double/float; known accuracy-loss findings are matched by measured envelopes", "TLA+ model (series definition in exact arithmetic) + trace validation"),
 "C03": ("model_checking", "log validated by the postcondition IsLog (exp series of the returned tangent equals the element's matrix, angle <= pi), round trips inside the injectivity radius and q/-q twins, over four element provenances", "TLA+ model + trace validation"),
 "C04": ("model_checking", "plus/minus/between validated against their definitions as compositions in the matrix model; aliases (operators, tangent-side forms, free functions) validated bit-identical to the canonical member by the alias trace spec", "TLA+ model + trace validation"),
 "C05": ("model_checking", "every returned Jacobian validated against the right-Jacobian expressed through Adj, Jr series and generators of the model (LieMath.tla), unit-aware 1e-6 tolerance", "TLA+ model (Jacobian series in exact arithmetic) + trace validation"),
 "C06": ("model_checking", "rjac/ljac and inverses, Adj, smallAdj validated against the series / conjugation / bracket definitions evaluated exactly by TLC", "TLA+ model + trace validation"),
 "C07": ("model_checking", "generators, hat, vee, bracket, inner weights validated exactly against the documented generator basis of Groups.tla; algebra identities model-checked on the integer tangent lattice", "TLA+ model (exhaustive integer lattice) + trace validation"),
 "C08": ("model_checking", "NormDrift.tla: finite integer model of the unit-norm deviation under every element-producing operation with nondeterministic rounding and the renormalisation branch; TLC's fixpoint covers histories of unbounded length (negative control without renormalisation fails). Long histories (random walks over 14 operation kinds, repeated squaring, small-angle +=, chains) of the real library in assertion-enabled and NDEBUG builds are validated step by step by NormTrace.tla (exact norm from coefficient bits, acceptance band, no exception, measured rounding envelope)", "TLA+ finite-state model (unbounded histories) + trace validation of long recorded histories in two build modes"),
 "C09": ("model_checking", "Manif.tla abstract register machine (results are functions of operation and operand values only; one location written per call) explored exhaustively for short histories; every single call (op x destination x operand registers x output mask) and simulated long histories replayed on the real library; ManifHistTrace.tla requires one consistent binding identifier->bits for the whole history: determinism across masks/storage/repetition, operands unmodified, in-place forms equal to the value forms, Jacobian hosts written exactly in their block", "TLA+ abstract machine (TLC exhaustive + simulation) with behaviours replayed on the implementation and validated step by step"),
 "C10": ("model_checking", "the behaviours of Manif.tla replayed with Eigen::Map views (mutable, const, aliasing) over an unaligned user buffer with guard zones and in an AddressSanitizer build; ManifHistTrace.tla checks the whole buffer image after every call (frame condition cell by cell), equality with the owning twin and exact write-through", "TLA+ abstract machine with memory slots; behaviours replayed and validated step by step; ASan observes reads"),
 "C11": ("model_checking", "BundleLayout.tla enumerates layouts, checks the covering predicate and the direct-product laws of the model; Groups/LieMath handle bundle descriptors generically (block-diagonal matrix group), so every Bundle operation of the real library is validated against the product model, plus exact checks of the five offset tables, element<i>() aliasing, element-wise equality and off-block zeros", "TLA+ layout model + trace validation per generated layout"),
 "C14": ("model_checking", "StaticInit.tla: C++11 magic-static guard protocol over the dependency DAG of the library's function-local statics, all interleavings of 3 threads (exactly-once, no read before completion, sequential results, termination; two broken protocols and a cyclic table rejected); a header scanner binds the model's static table to the code; TLC-generated contention plans run under ThreadSanitizer in fresh processes and are validated by StaticInitTrace.tla", "TLA+ interleaving model + source scanner binding + TSan schedule runs validated against the spec"),
 "C15": ("model_checking", "AlgoTrace.tla: end-point laws for all three methods and arbitrary end velocities, rejection of parameters outside [0,1] (incl. NaN), SLERP = A exp(s log(A^-1 B)) with the logarithm supplied as a witness that the spec verifies by its exponential series, left-equivariance; smoothing_phi compared with the exact normalised integral of t^m(1-t)^m whose end values and monotonicity TLC checks in-spec; unsupported degrees must raise", "TLA+ postcondition model with verified witnesses + trace validation"),
 "C16": ("model_checking", "AlgoTrace.tla: validity, identical points, empty set raises, stationarity sum_i log(m^-1 X_i)=0 (witness logarithms verified by the spec) up to the stopping tolerance, order independence and left/right equivariance for the bi-invariant and Frechet means, left equivariance for the weighted average", "TLA+ postcondition model with verified witnesses + trace validation"),
 "C18": ("model_checking", "AlgoTrace.tla: reflexivity (incl. large coordinates and the coefficient-negated twin), symmetry, and the banded threshold semantics (must accept below eps/8, must reject above 8 eps, free in between) for elements at controlled tangent distance and for tangents in the relative and absolute regime", "TLA+ relational model + trace validation"),
 "C17": ("model_checking", "DeCasteljau.tla: the transcribed window bookkeeping refines the specification windows on the whole box N<=16,k<=4 (TLC exhaustive, termination, index bounds); every configuration replayed on the real decasteljau with a one-hot trajectory whose output reveals the weights, validated by DeCasteljauTrace.tla", "TLA+ refinement model checked exhaustively + per-configuration replay on the implementation"),
}
NOT_YET = {}
def main():
    na_path = os.path.join(ROOT, "tools", "not_applicable.json")
    na = json.load(open(na_path)) if os.path.exists(na_path) else {}
    checks = []
    for pid in sorted(CHECKS):
        lvl, text, tech = CHECKS[pid]
        if not os.path.exists(os.path.join(ROOT, "tools", "checks", pid.lower() + ".py")): continue
        checks.append({"property_id": pid, "quick_cmd": "tools/vcheck %s --tier quick" % pid, "thorough_cmd": "tools/vcheck %s --tier thorough" % pid,
                       "evidence_file": "/verif/evidence/%s.json" % pid, "replay_cmd_template": "tools/vcheck replay {path}", "engine": "tlc-trace",
                       "level_claimed": {"category": lvl, "text": text, "design_ref": "DESIGN.md section 3, " + pid},
                       "level_note": "trusted: TLC 1.8, spec/Fix.tla pure definitions (overrides checked against them in setup), g++ 12 -O1 -ffp-contract=off builds of the recorders from /repo/include, tolerance model of spec/ManifTrace.tla; uniformity between sampled points is not proved",
                       "technique": tech})
    props = [json.loads(l)["id"] for l in open(os.path.join(ROOT, "properties.jsonl"))]
    claimed = set(c["property_id"] for c in checks)
    nal = [{"property_id": p, "reason": na.get(p, "check not built yet in this round (planned, see DESIGN.md section 3)")} for p in props if p not in claimed]
    m = {"version": 1, "setup_cmd": "tools/vcheck setup",
         "hooks": {"guard": "MANIF_VERIF", "enable": "no hooks are needed: every observation is made at the public API from recorder programs compiled against /repo/include", "baseline_off_cmd": "cmake --build /repo/_build && ctest --test-dir /repo/_build -j8 --timeout 900", "source_commits": [], "add_only": True},
         "engines": [{"name": "tlc-trace", "path": "/verif/tools/vcheck", "serves_properties": sorted(claimed), "kind_free_text": "TLA+ specifications checked with TLC (exhaustive models + trace validation of recorded executions of the real library), exact fixed-point arithmetic via spec/Fix.tla"}],
         "checks": checks, "not_applicable": nal,
         "notes": "All checks: tools/vcheck <id> --tier quick|thorough; exit 0 / exit 1 + VIOLATION line; KNOWN-FINDING lines for entries of known_findings.json; exit 2 = internal error of the machinery (never a verdict)."}
    json.dump(m, open(os.path.join(ROOT, "MANIFEST.json"), "w"), indent=1)
    try:
        import jsonschema
        jsonschema.validate(m, json.load(open("/root/.vp/MANIFEST.schema.json"))); print("MANIFEST valid,", len(checks), "checks,", len(nal), "not_applicable")
    except ImportError:
        print("written (jsonschema not importable here)")
if __name__ == "__main__":
    main()
