#!/usr/bin/env python3
"""print the brief given to an independent sub-agent that seeds a property-breaking change (it gets the property
text and its own scratch worktree only -- nothing from /verif)"""
import json, sys
pid = sys.argv[1]; n = sys.argv[2] if len(sys.argv) > 2 else "1"
p = [json.loads(l) for l in open("/verif/properties.jsonl") if json.loads(l)["id"] == pid][0]
wt = "/tmp/mutwt_%s_%s" % (pid, n); outd = "/tmp/mutout_%s_%s" % (pid, n)
print(f"""You are a careful C++ engineer doing mutation analysis of the header-only C++11 Lie-group library artivis/manif (git repository at /repo). Work ONLY in your own scratch git worktree; never edit, build or commit in /repo itself, and do not look at or use anything under /verif (it does not concern you).

SET-UP: create your worktree with `git -C /repo worktree add --detach {wt} HEAD` (if it already exists, reuse it). All your edits go into {wt}/include/... Deliverables go into {outd}/ (create it).

THE PROPERTY (a semantic property users of the library rely on):
  title: {p['title']}
  statement: {p['statement']}
  quantifier: {p['quantifier']['text']}
  why the existing tests cannot settle it: {p['why_tests_cant']}
  code anchors: {', '.join(p['anchors']['files'][:12])}

YOUR TASK: design ONE realistic change to the library sources (a plausible refactoring slip, optimisation, copy-paste or sign/index/threshold mistake a maintainer could make — not sabotage that any use would expose at once) such that
  (1) the library still compiles and the repository's existing test suite still passes completely with the change, and
  (2) the property above is violated, but only under something specific: an unusual input region (e.g. tiny-but-non-zero rotation with O(1) translation, quaternion with w<0, angle near pi, large coordinates), a particular subset of optional outputs, a particular storage kind (Eigen::Map view / const view), a particular group or bundle layout, a multi-step sequence of operations, a particular scalar type, or two cooperating sites that each look fine alone.
Prefer a change whose effect is clearly beyond rounding noise (so that the violation is unambiguous) and that differs in kind from the obvious "flip one sign in the main formula" (the existing tests would catch that). Read the relevant headers and the existing tests under {wt}/test first so you know what the tests exercise.

VERIFY IT YOURSELF:
  a. Build and run the full existing test suite in your worktree: `cmake -G Ninja -S {wt} -B {wt}/_build -DCMAKE_BUILD_TYPE=RelWithDebInfo -DBUILD_TESTING=ON -DCMAKE_CXX_FLAGS=-Wno-error` then `cmake --build {wt}/_build -j6` (this takes 15-40 minutes on this shared machine; start it in the background with nohup and poll, do not block on it for more than 20 minutes per command), then `ctest --test-dir {wt}/_build -j8 --timeout 900`. All tests must pass WITH your change. (Eigen 3.4 is in /usr/include/eigen3; there is no network.) If the build of gtest fails because of missing network, look at how /repo/_build was configured (CMakeCache.txt) and mirror it.
  b. Write a small stand-alone demonstration program `{outd}/demo.cpp` (compile line: `g++ -std=c++11 -O1 -I<root>/include -I<root>/external/tl -I/usr/include/eigen3 demo.cpp -o demo`) that exits 0 when the property holds on the inputs it tries and exits 1 (printing what failed) when it does not; it must exit 1 when compiled against your modified worktree ({wt}) and exit 0 when compiled against the unmodified /repo. Use an independent oracle where needed (e.g. compare against Eigen's matrix exponential from <unsupported/Eigen/MatrixFunctions>, a long-double series, a finite difference, or an owning-object twin), not manif against itself in a way the mutation also corrupts.
  c. Save `git -C {wt} diff > {outd}/patch.diff` (the patch must apply to /repo with `git apply`), and write `{outd}/meta.json` with keys: property ("{pid}"), summary (one sentence), what_it_needs_to_manifest (the specific input / sequence / configuration), files_changed, commands_run (list of strings), suite_result (e.g. "17/17 ctest targets passed"), demo_result_with_patch, demo_result_without_patch.
Leave the worktree and its _build directory in place when you finish (they will be inspected and removed by someone else). Do not commit anything anywhere.

FINAL MESSAGE: the one-sentence summary, what it needs to manifest, and the exact results of steps a and b.""")
