"""vcheck replay <path>: re-validate the events of a stored replay file and print their verdict lines"""
import os, json, sys
import vlib
def main(path):
    lines = [l for l in open(path).read().splitlines() if l.strip()]
    if not lines: print("empty replay"); return 2
    first = json.loads(lines[0])
    e = first.get("e")
    module = ("DeCasteljauTrace" if e in ("dc", "dcg") else "ManifHistTrace" if e in ("init", "step") else
              "NormTrace" if e in ("w", "wsum", "wstart", "wexc") else "StaticInitTrace" if e in ("op", "race") else
              "ApiTrace" if e == "api" else "JetTrace" if e in ("jetcmp", "functor", "fltcmp") else "AlgoTrace")
    sequential = module in ("ManifHistTrace",)
    wd = vlib.workdir("replay")
    results, st = (vlib.validate_shard(lines, wd, module, 0) if sequential else vlib.validate(lines, wd, module=module, nshards=min(8, len(lines))))
    bad = 0
    for r in results:
        h = json.loads(r["ev"]); worst = max([x[1] for x in r["items"]] or [0])
        if worst > 1000: bad += 1
        print("%s %s st=%s theta_log2=%s items=%s" % (h.get("e"), h.get("g"), h.get("st"), r["theta"], r["items"]))
    print("%d of %d replayed events exceed tolerance" % (bad, len(results)))
    return 1 if bad else 0
