"""vcheck replay <path>: re-validate the events of a stored replay file and print their verdict lines"""
import os, json, sys
import vlib
def main(path):
    lines = [l for l in open(path).read().splitlines() if l.strip()]
    if not lines: print("empty replay"); return 2
    first = json.loads(lines[0])
    module = "DeCasteljauTrace" if first.get("e") in ("dc", "dcg") else first.get("_module", "ManifTrace")
    wd = vlib.workdir("replay")
    results, st = vlib.validate(lines, wd, module=module, nshards=min(8, len(lines)))
    bad = 0
    for r in results:
        h = json.loads(r["ev"]); worst = max([x[1] for x in r["items"]] or [0])
        if worst > 1000: bad += 1
        print("%s %s st=%s theta_log2=%s items=%s" % (h.get("e"), h.get("g"), h.get("st"), r["theta"], r["items"]))
    print("%d of %d replayed events exceed tolerance" % (bad, len(results)))
    return 1 if bad else 0
