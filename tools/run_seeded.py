#!/usr/bin/env python3
"""Run the checks against every confirmed seeded change: git -C /repo apply <patch>, run the listed checks (quick tier),
undo straight afterwards (git -C /repo checkout -- .).  Writes seeded/<id>/result.json and prints a table.
Usage: tools/run_seeded.py [id-substring ...]    (nothing else may use /repo meanwhile)"""
import json, os, subprocess, sys, time, glob
ROOT = "/verif"
def sh(cmd, **kw): return subprocess.run(cmd, shell=True, stdout=subprocess.PIPE, stderr=subprocess.STDOUT, universal_newlines=True, **kw)
def main():
    sel = sys.argv[1:]
    if sh("git -C /repo status --porcelain --untracked-files=no").stdout.strip():
        print("refusing: /repo has uncommitted changes"); return 2
    rows = []
    for d in sorted(glob.glob(ROOT + "/seeded/*/")):
        name = os.path.basename(d.rstrip("/"))
        if sel and not any(s in name for s in sel): continue
        meta = json.load(open(d + "meta.json"))
        checks = meta.get("expected_checks") or [meta["property"]]
        r = sh("git -C /repo apply %s/patch.diff" % d)
        if r.returncode != 0:
            rows.append((name, "PATCH DOES NOT APPLY", r.stdout.strip()[:100])); continue
        res = {}
        try:
            for c in checks:
                t0 = time.time()
                rr = sh("%s/tools/vcheck %s --tier quick" % (ROOT, c), cwd=ROOT)
                res[c] = {"exit": rr.returncode, "violation_line": [l for l in rr.stdout.splitlines() if l.startswith("VIOLATION")][:1],
                          "summary": rr.stdout.strip().splitlines()[-1][:200] if rr.stdout.strip() else "", "wall_s": round(time.time() - t0)}
        finally:
            sh("git -C /repo checkout -- .")
        json.dump({"ran": "git -C /repo apply patch.diff; tools/vcheck <id> --tier quick; git -C /repo checkout -- .", "results": res}, open(d + "result.json", "w"), indent=1)
        rows.append((name, " ".join("%s:%s" % (c, "CAUGHT" if v["exit"] == 1 and v["violation_line"] else "missed(rc=%d)" % v["exit"]) for c, v in res.items()), ""))
        print(rows[-1], flush=True)
    return 0
if __name__ == "__main__": sys.exit(main())
