#!/usr/bin/env python3
"""Mutant self-test: apply each small source mutation of the catalogue to a scratch copy of /repo's headers
(outside /repo and /verif, removed afterwards), run the intended check against it (VERIF_REPO) and require a
VIOLATION.  Usage: tools/selftest.py [name-substring ...]   Results: .cache/selftest.json"""
import json, os, re, shutil, subprocess, sys, time
ROOT = "/verif"
CAT = [
 # (name, check, file under include/manif, regex or literal old, new)
 ("se3_compose_sign", "C01", "impl/se3/SE3_base.h", "return LieGroup(rotation()*m_se3.translation() + translation(),", "return LieGroup(rotation()*m_se3.translation() - translation(),"),
 ("sgal3_compose_time_term", "C01", "impl/sgal3/SGal3_base.h", "+ m_sgal3.t() * linearVelocity() + translation(),", "+ t() * linearVelocity() + translation(),"),
 ("so3_inverse_hemisphere", "C01", "impl/so3/SO3_base.h", "return LieGroup(quat().conjugate());", "return (w() < Scalar(0)) ? LieGroup(quat()) : LieGroup(quat().conjugate());"),
 ("se2_exp_taylor_B", "C02", "impl/se2/SE2Tangent_base.h", "B = Scalar(.5) * theta - Scalar(1. / 24.) * theta * theta_sq;", "B = Scalar(1. / 12.) * theta - Scalar(1. / 24.) * theta * theta_sq;"),
 ("so3_exp_small_angle_quat", "C02", "impl/so3/SO3Tangent_base.h", "return LieGroup(x()/Scalar(2), y()/Scalar(2), z()/Scalar(2), Scalar(1));", "return LieGroup(x(), y(), z(), Scalar(1));"),
 ("so3_log_hemisphere_revert", "C03", "impl/so3/SO3_base.h", "log_coeff = (w() < Scalar(0.0)) ? Scalar(-2.0) : Scalar(2.0);", "log_coeff = Scalar(2.0);"),
 ("tangent_plus_forwards_rplus", "C04", "impl/tangent_base.h", "                            OptJacobianRef J_mout_m) const\n{\n  return m.lplus(derived(), J_mout_m, J_mout_t);", "                            OptJacobianRef J_mout_m) const\n{\n  return m.rplus(derived(), J_mout_m, J_mout_t);"),
 ("between_jacobian_adj", "C05", "impl/lie_group_base.h", "*J_mc_ma = -(mc.inverse().adj());", "*J_mc_ma = -(mc.adj());"),
 ("so3_ljacinv_sign", "C06", "impl/so3/SO3Tangent_base.h", "(Scalar(1) / theta_sq - (Scalar(1) + cos(theta)) / (Scalar(2) * theta * sin(theta)))", "(Scalar(1) / theta_sq + (Scalar(1) + cos(theta)) / (Scalar(2) * theta * sin(theta)))"),
 ("se2_innerweights", "C07", "impl/se2/SE2Tangent_base.h", "Scalar(0), Scalar(0), Scalar(2) ).finished()", "Scalar(0), Scalar(0), Scalar(1) ).finished()"),
 ("generator_accepts_dof", "C07", "impl/so3/SO3Tangent_base.h", None, None),
 ("bundle_act_index", "C11", "impl/bundle/Bundle_base.h", "J_vout_m->template block<Element<_Idx>::Dim, Element<_Idx>::DoF>(\n        std::get<_Idx>(internal::traits<_Derived>::DimIdx),\n        std::get<_Idx>(internal::traits<_Derived>::DoFIdx)", "J_vout_m->template block<Element<_Idx>::Dim, Element<_Idx>::DoF>(\n        std::get<_Idx>(internal::traits<_Derived>::DimIdx),\n        std::get<_Idx>(internal::traits<_Derived>::DimIdx)"),
 ("static_nonconst_cache", "C14", "impl/so2/SO2Tangent_base.h", None, None),
 ("compose_no_renorm", "C08", "impl/so3/SO3_base.h", "if (abs(ret_sqnorm-Scalar(1)) > Constants<Scalar>::eps)", "if (false && abs(ret_sqnorm-Scalar(1)) > Constants<Scalar>::eps)"),
 ("decasteljau_parenthesis_revert", "C17", "algorithms/decasteljau.h", "std::floor(double(trajectory.size()-degree)/double(degree-1))+1", "std::floor(double(trajectory.size()-degree)/double((degree-1)+1))"),
 ("cubic_revert", "C15", "algorithms/interpolation.h", "const auto l = ma.rplus(tab*h01).rplus(ta*h10);", "const auto l = ma.rplus(tab*h00).rplus(ta*h10);"),
 ("avg_frechet_right_rminus", "C16", "algorithms/average.h", "tmp = it->lminus(avg_0); // Log( Xi . Avg^-1 )", "tmp = it->rminus(avg_0); // Log( Xi . Avg^-1 )"),
 ("isapprox_asymmetric", "C18", "impl/tangent_base.h", "if (min(coeffs().norm(), t.norm()) < eps)", "if (coeffs().norm() < eps)"),
]
def main():
    sel = sys.argv[1:]
    out = {}
    for name, check, rel, old, new in CAT:
        if sel and not any(s in name for s in sel): continue
        if old is None or new is None: print("skip", name, "(needs manual patch)"); continue
        d = "/var/tmp/verif-mut-%s" % name
        shutil.rmtree(d, ignore_errors=True); os.makedirs(d)
        shutil.copytree("/repo/include", d + "/include"); shutil.copytree("/repo/external", d + "/external")
        p = os.path.join(d, "include/manif", rel); s = open(p).read()
        if old not in s:
            print("MUTANT-NOT-APPLICABLE", name); shutil.rmtree(d); out[name] = "not applicable"; continue
        open(p, "w").write(s.replace(old, new, 1))
        t0 = time.time()
        r = subprocess.run([ROOT + "/tools/vcheck", check, "--tier", "quick"], cwd=ROOT, env=dict(os.environ, VERIF_REPO=d),
                           stdout=subprocess.PIPE, stderr=subprocess.STDOUT, universal_newlines=True)
        caught = r.returncode == 1 and "VIOLATION property=%s" % check in r.stdout
        nv = re.search(r"(\d+) violations", r.stdout)
        out[name] = {"check": check, "caught": caught, "rc": r.returncode, "violations": int(nv.group(1)) if nv else None, "wall_s": round(time.time() - t0)}
        print(("CAUGHT " if caught else "MISSED ") + name, out[name], flush=True)
        shutil.rmtree(d, ignore_errors=True)
    os.makedirs(ROOT + "/.cache", exist_ok=True)
    prev = {}
    try: prev = json.load(open(ROOT + "/.cache/selftest.json"))
    except Exception: pass
    prev.update(out); json.dump(prev, open(ROOT + "/.cache/selftest.json", "w"), indent=1)
if __name__ == "__main__": main()
