"""setup: compile the TLC overrides, check them against the pure TLA+ definitions (FixSelfTest), run the
in-spec sanity of the group model (ModelSanity)."""
import os, re, sys
import vlib

NOISE = re.compile(r"^(Finished|Starting|Running|TLC2|Warning|\(Use|Parsing|Semantic|Linting|Loading|Computing|Model checking|  |\d+ states|The |Implied|@!@)")
def payload(out):
    return [l for l in out.splitlines() if l.startswith("<<") or l.startswith("   ") or l.startswith("  <<")]

def main():
    vlib.ensure_java()
    rc1, pure = vlib.tlc("FixSelfTest", overrides=False, timeout=600)
    rc2, ov = vlib.tlc("FixSelfTest", overrides=True, timeout=600)
    if rc1 != 0 or rc2 != 0:
        print("FixSelfTest failed to run (rc %d / %d)\n%s" % (rc1, rc2, (pure if rc1 else ov)[-2000:])); return 2
    a, b = payload(pure), payload(ov)
    if a != b or len(a) < 1000:
        print("FixSelfTest: Java overrides disagree with the pure TLA+ definitions (%d vs %d lines)" % (len(a), len(b))); return 2
    if '<<"INV", 1, TRUE>>' not in pure or '<<"INV", 3, TRUE>>' not in ov:
        print("FixSelfTest: inverse residual check failed"); return 2
    rc3, ms = vlib.tlc("ModelSanity", timeout=600)
    rows = [l for l in ms.splitlines() if l.startswith('<<"')]
    if rc3 != 0 or len(rows) != 8 or any("FALSE" in r for r in rows):
        print("ModelSanity failed:\n" + ms[-2000:]); return 2
    rc4, js = vlib.tlc("JacobianSanity", timeout=900)
    if rc4 != 0 or js.count("JSANITY") != 8 or "FALSE" in js or js.count("TRUE") != 120:
        print("JacobianSanity failed (the Jacobian formulas of the specification disagree with the literal definition):\n" + js[-2000:]); return 2
    print("setup ok: overrides == pure definitions on %d result lines; model sanity %d groups" % (len(a), len(rows)))
    return 0
