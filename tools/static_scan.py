#!/usr/bin/env python3
"""C14 scanner: every function-local `static` and every class-/namespace-level static data member (not
constexpr) of <repo>/include/manif/**/*.h with

  file, enclosing function (best effort), scope, const-ness, whether it is initialised in its declaration,
  whether it is written again later in the same function, and which other statics its initialiser depends on.

Dependencies are found through a name table built from the same scan:
  deps   calls in the initialiser (local lambdas expanded), followed through thin wrappers (functions whose
         body is a single statement, e.g. TangentBase::Generator -> GeneratorEvaluator<..>::run) to
         functions that own statics;
  reach  the over-approximation: everything reachable from the initialiser in the call graph by simple name
         (used for the cycle check only: more edges can only produce more cycles).

  static_scan.py [--repo DIR] [--write-baseline]     prints the table as JSON

The lexer is deliberately simple (comments/strings/preprocessor removed, brace matching with a classification
of every `{`); anything it cannot classify is reported rather than dropped, so that an unexpected construct
shows up as a difference to spec/StaticInitData.json.
"""
import os, re, sys, json, glob

try:
    import vlib
    REPO = vlib.REPO
    SPEC = vlib.SPEC
except Exception:                                   # stand-alone use
    REPO = os.environ.get("VERIF_REPO", "/repo")
    SPEC = os.path.join(os.path.dirname(os.path.dirname(os.path.abspath(__file__))), "spec")
BASELINE = os.path.join(SPEC, "StaticInitData.json")

# qualifiers that denote Eigen / std types inside manif (X::Identity(), X::Zero() ... are not manif calls)
EXTERNAL_QUALS = {"Jacobian", "LieAlg", "DataType", "InnerWeightsMatrix", "Rotation", "Transformation", "Vector",
                  "Translation", "LinearVelocity", "Matrix", "Matrix2", "Matrix3", "Matrix3d", "Vector3", "Vec", "Mat",
                  "Eigen", "std", "QuaternionDataType", "Quaternion", "Ref", "Map", "Scalar", "Mat3", "Vec3", "Jac", "M",
                  "Array", "Isometry", "Rotation2D", "AngleAxis", "LinearAcceleration", "LinBlock", "AngBlock"}
KEYWORDS = {"if", "for", "while", "switch", "return", "sizeof", "catch", "static_assert", "static_cast", "const_cast",
            "reinterpret_cast", "dynamic_cast", "decltype", "alignof", "noexcept", "throw", "new", "delete", "typeid",
            "operator", "template", "typename", "using", "assert", "defined"}
CLASS_KEYS = {"class", "struct", "union", "enum"}

TOK = re.compile(r"[A-Za-z_]\w*|\d[\w.]*|::|->|<<=|>>=|<<|[-+*/%&|^!=<>]=|&&|\|\||\S")

def strip(text):
    """remove comments, string/char literals and preprocessor lines (newlines kept); returns (code, macros)
    macros: list of (line, name, body)"""
    out = []; i = 0; n = len(text)
    while i < n:
        c = text[i]
        if text.startswith("//", i):
            j = text.find("\n", i); j = n if j < 0 else j
            while j < n and text[j - 1] == "\\":                      # continued line comment
                k = text.find("\n", j + 1); j = n if k < 0 else k
            out.append(re.sub(r"[^\n]", " ", text[i:j])); i = j
        elif text.startswith("/*", i):
            j = text.find("*/", i + 2); j = n if j < 0 else j + 2
            out.append(re.sub(r"[^\n]", " ", text[i:j])); i = j
        elif c == '"' or (c == "'" and not (i > 0 and text[i - 1].isalnum())):
            j = i + 1
            while j < n and text[j] != c:
                j += 2 if text[j] == "\\" else 1
            out.append(c + " " * (j - i - 1) + c); i = j + 1
        else:
            out.append(c); i += 1
    code = "".join(out)
    lines = code.split("\n"); macros = []; k = 0
    while k < len(lines):
        if lines[k].lstrip().startswith("#"):
            start = k; body = [lines[k]]
            while lines[k].rstrip().endswith("\\") and k + 1 < len(lines):
                k += 1; body.append(lines[k])
            m = re.match(r"\s*#\s*define\s+(\w+)(.*)", " ".join(b.rstrip("\\ ") for b in body), re.S)
            if m: macros.append((start + 1, m.group(1), m.group(2)))
            for q in range(start, k + 1): lines[q] = ""
        k += 1
    return "\n".join(lines), macros

def tokenize(code):
    toks = []; line = 1; pos = 0
    for m in TOK.finditer(code):
        line += code.count("\n", pos, m.start()); pos = m.start()
        toks.append((m.group(0), line))
    return toks

def is_id(t): return bool(re.match(r"[A-Za-z_]\w*$", t))

def norm_name(tokens):
    """qualified name from a token list: template argument lists that only name the CRTP parameter are dropped"""
    s = "".join(tokens)
    for _ in range(4):
        s = re.sub(r"<(_?Derived|typename|_?Scalar|T|_Idx\.\.\.)?>", "", s)
    s = s.replace("typename", "").replace("template", "")
    return s

def qualified_before(toks, i):
    """tokens of the qualified id ending at index i (inclusive), walking back over :: and balanced <...>"""
    j = i; out = [toks[i][0]]
    while j - 1 >= 0:
        p = toks[j - 1][0]
        if p == "::":
            out.insert(0, p); j -= 1
            if j - 1 >= 0 and toks[j - 1][0] == ">":                  # balanced template arguments
                d = 0; k = j - 1
                while k >= 0:
                    if toks[k][0] in (">", ">>"): d += len(toks[k][0])
                    elif toks[k][0] == "<": d -= 1
                    if d == 0: break
                    k -= 1
                out[0:0] = [t for t, _ in toks[k:j]]; j = k
                if j - 1 >= 0 and is_id(toks[j - 1][0]): out.insert(0, toks[j - 1][0]); j -= 1
            elif j - 1 >= 0 and is_id(toks[j - 1][0]):
                out.insert(0, toks[j - 1][0]); j -= 1
            else:
                break
        elif p == "~":
            out.insert(0, p); j -= 1
        else:
            break
    return out

def base_of(qual_tokens):
    """last class component of a qualifier token list (template args removed)"""
    comps = []; d = 0
    for t in qual_tokens:
        if t == "<": d += 1
        elif t == ">": d -= 1
        elif t == ">>": d -= 2
        elif d == 0 and is_id(t) and t not in ("typename", "template"): comps.append(t)
    return comps

class Func:
    def __init__(self, name, cls, file, line):
        self.name, self.cls, self.file, self.line = name, cls, file, line
        self.calls = []; self.statics = []; self.lambdas = {}; self.nstmts = 0; self.body = (0, 0)
    @property
    def key(self): return "%s:%s" % (self.file, self.name)
    @property
    def simple(self): return re.split(r"::", re.sub(r"<.*?>", "", self.name))[-1]

def calls_in(toks, a, b):
    """calls (qualifier components, simple name, is_member_call) among toks[a:b]"""
    res = []
    for i in range(a, b):
        t = toks[i][0]
        if not is_id(t) or t in KEYWORDS: continue
        j = i + 1
        if j < b and toks[j][0] == "<":                              # f<...>(  -- explicit template arguments
            d = 0; k = j
            while k < b:
                if toks[k][0] == "<": d += 1
                elif toks[k][0] == ">": d -= 1
                elif toks[k][0] == ">>": d -= 2
                elif toks[k][0] in (";", "{", "}"): break
                if d <= 0: break
                k += 1
            j = k + 1 if d <= 0 else j
        if not (j < len(toks) and toks[j][0] == "("): continue
        q = qualified_before(toks, i)
        first = i - (len(q) - 1)
        member = first - 1 >= 0 and toks[first - 1][0] in (".", "->")
        if first - 1 >= 0 and toks[first - 1][0] == "template" and first - 2 >= 0 and toks[first - 2][0] in (".", "->"): member = True
        # a declaration `T name(args)` is not a call: previous token is an identifier/`>`/`&`/`*` and not a keyword
        res.append((base_of(q[:-1]), t, member))
    return res

def scan_file(path, rel):
    text = open(path, errors="replace").read()
    code, macros = strip(text)
    toks = tokenize(code)
    funcs = []; statics = []; problems = []
    for line, name, body in macros:
        if re.search(r"\bstatic\b(?!_)", body) and not re.search(r"\bstatic\s+constexpr\b|\bconstexpr\s+static\b", body):
            statics.append(dict(file=rel, line=line, function="#define " + name, name="?", scope="macro", const=False,
                                constexpr=False, init_in_decl=False, init="macro", assigned_later=False, calls=[], text=" ".join(body.split())[:200]))
    # scope stack entries: [kind, name, func or None]
    stack = [["namespace", "", None]]
    hdr_start = 0                                       # index of first token of the current statement header
    i = 0; n = len(toks)
    classes = set()
    def cur_func():
        for s in reversed(stack):
            if s[2] is not None: return s[2]
        return None
    def cur_class():
        names = [s[1] for s in stack if s[0] == "class" and s[1]]
        return "::".join(names)
    while i < n:
        t, line = toks[i]
        if t == "{":
            hdr = toks[hdr_start:i]; ht = [x for x, _ in hdr]
            # drop access specifiers and template heads
            while ht and (ht[0] in ("public", "private", "protected") or ht[0] == ":"): ht = ht[1:]
            k = 0
            while k < len(ht) and ht[k] == "template":
                d = 0; k += 1
                while k < len(ht):
                    if ht[k] == "<": d += 1
                    elif ht[k] == ">": d -= 1
                    elif ht[k] == ">>": d -= 2
                    k += 1
                    if d <= 0: break
            h = ht[k:]
            infunc = cur_func() is not None
            if ht.count("(") > ht.count(")"):
                # a brace inside an open parenthesis (default argument `= {}`, brace-initialised argument):
                # not a scope of its own and not the end of the statement header
                stack.append(["paren", "", None, i]); i += 1; continue
            if infunc:
                f = cur_func()
                # local lambda:  auto NAME = [..](..) {
                lam = None
                if "[" in h and "=" in h and h.index("=") < h.index("[") and h.index("=") >= 1 and is_id(h[h.index("=") - 1]):
                    lam = h[h.index("=") - 1]
                stack.append(["block", lam or "", None, i])
            elif h and h[0] == "namespace":
                stack.append(["namespace", "".join(h[1:]), None, i])
            elif h and h[0] in CLASS_KEYS and "(" not in h:
                nm = []
                for x in h[1:]:
                    if x in ("class", "struct"): continue
                    if x == ":" or x == "final": break
                    nm.append(x)
                name = norm_name(nm)
                classes.add(re.sub(r"<.*", "", name))
                stack.append(["class", name, None, i])
            elif "(" in h and not (h and h[0] in ("extern",)):
                # function definition: name = qualified id before the first top-level '('
                p = h.index("(")
                # index in toks
                off = i - len(h) + p
                if p >= 1 and (is_id(h[p - 1]) or h[p - 1] in (")", "]", ">", "=", "==", "!", "+", "-", "*", "/", "<", "<<", "()", "[]", "!=", "+=", "-=", "*=")):
                    if "operator" in h[:p + 1]:
                        q = ["operator"]; qn = "operator" + "".join(h[h.index("operator") + 1:p])
                        qual = qualified_before(toks, off - (p - h.index("operator")))
                        name = norm_name(qual[:-1]) + qn
                    else:
                        name = norm_name(qualified_before(toks, off - 1))
                else:
                    name = "<anonymous>"
                cls = cur_class()
                full = (cls + "::" if cls and "::" not in name else "") + name
                f = Func(full, cls or re.sub(r"::[^:]*$", "", name) if "::" in full else "", rel, toks[off][1] if 0 <= off < n else line)
                funcs.append(f)
                stack.append(["function", full, f, i])
            elif "=" in h:
                stack.append(["init", "", None, i])
            elif not h:
                f = Func((cur_class() + "::" if cur_class() else "") + "<anonymous>", cur_class(), rel, line)
                funcs.append(f); stack.append(["function", f.name, f, i])
            else:
                stack.append(["namespace", "".join(h), None, i])
            hdr_start = i + 1
        elif t == "}":
            if len(stack) > 1:
                s = stack.pop()
                if s[0] == "paren":
                    i += 1; continue
                if s[0] == "function":
                    s[2].body = (s[3] + 1, i)
                elif s[0] == "block" and s[1]:
                    f = cur_func()
                    if f is not None: f.lambdas[s[1]] = (s[3] + 1, i)
            else:
                problems.append("%s:%d unbalanced '}'" % (rel, line))
            hdr_start = i + 1
            # `};` / `} name;` after class or init: the following ';' resets the header anyway
        elif t == ";":
            f = cur_func()
            if f is not None and stack[-1][0] == "function": f.nstmts += 1
            hdr_start = i + 1
        elif t == ":" and i > 0 and toks[i - 1][0] in ("public", "private", "protected", "default"):
            hdr_start = i + 1
        elif t == "static":
            # specifiers written before `static`
            j = i - 1; pre = []
            while j >= 0 and toks[j][0] in ("const", "constexpr", "inline", "thread_local", "volatile", "mutable", "extern"):
                pre.append(toks[j][0]); j -= 1
            # scan the declarator up to the first of  ; { = (  at template depth 0
            k = i + 1; d = 0; spec = []
            while k < n:
                x = toks[k][0]
                if x == "<" and k > 0 and (is_id(toks[k - 1][0]) or toks[k - 1][0] == "template"): d += 1
                elif x == ">" and d > 0: d -= 1
                elif x == ">>" and d > 0: d = max(0, d - 2)
                elif d == 0 and x in (";", "{", "=", "(", "}"): break
                spec.append(x); k += 1
            delim = toks[k][0] if k < n else ";"
            constexpr_ = "constexpr" in pre or "constexpr" in spec
            scope = "function" if cur_func() is not None else stack[-1][0]
            name = spec[-1] if spec and is_id(spec[-1]) else "?"
            if spec and spec[-1] == "]":                              # array declarator  name[N]
                b = len(spec) - 1
                while b >= 0 and spec[b] != "[": b -= 1
                name = spec[b - 1] if b >= 1 else "?"
            is_function = False
            if "operator" in spec: is_function = True
            if delim == "(" and scope != "function":
                # at class / namespace scope  `static T name(` starts a function unless the parenthesis closes into ';'
                # with a non-parameter-like content -- both are reported as functions when followed by { const -> noexcept
                dd = 0; e = k
                while e < n:
                    if toks[e][0] == "(": dd += 1
                    elif toks[e][0] == ")":
                        dd -= 1
                        if dd == 0: break
                    e += 1
                after = toks[e + 1][0] if e + 1 < n else ";"
                if after in ("{", "const", "->", "noexcept", "override", "final", ":", "=") or scope == "class":
                    is_function = True
                elif scope == "namespace" and after == ";":
                    is_function = False                                # ambiguous: reported as a variable
            if not is_function and not constexpr_:
                # extent of the declaration: up to the ';' at depth 0
                e = k; dd = 0
                while e < n:
                    x = toks[e][0]
                    if x in ("(", "{", "["): dd += 1
                    elif x in (")", "}", "]"): dd -= 1
                    elif x == ";" and dd <= 0: break
                    e += 1
                # const-ness of the object itself
                ptr = [q for q, x in enumerate(spec) if x in ("*", "&")]
                if ptr:
                    const = "const" in spec[ptr[-1] + 1:] or (spec[ptr[-1]] == "&" and ("const" in spec[:ptr[-1]] or "const" in pre))
                else:
                    const = "const" in spec or "const" in pre
                init = {"=": "copy", "(": "direct", "{": "brace"}.get(delim, "none")
                f = cur_func()
                rec = dict(file=rel, line=line, function=f.name if f else (cur_class() or "<namespace>"), name=name, scope=scope,
                           const=bool(const), constexpr=False, init_in_decl=init != "none", init=init, assigned_later=False,
                           text=" ".join(x for x, _ in toks[max(0, i - len(pre)):e])[:240], _init=(k, e), _func=f, _end=e)
                statics.append(rec)
                if f is not None: f.statics.append(rec)
        i += 1
    if len(stack) != 1: problems.append("%s: %d unclosed '{'" % (rel, len(stack) - 1))
    # calls per function, per lambda, per static initialiser; later writes to a function-local static
    for f in funcs:
        a, b = f.body
        f.calls = calls_in(toks, a, b)
        f.lambda_calls = {k: calls_in(toks, x, y) for k, (x, y) in f.lambdas.items()}
        # number of statements: thin wrapper = one statement
        for s in f.statics:
            x, y = s.pop("_init"); s["_calls"] = calls_in(toks, x, y)
            e = s.pop("_end"); nm = s["name"]
            for q in range(e, b):
                if toks[q][0] == nm and q + 1 < b and toks[q - 1][0] not in (".", "->", "::"):
                    nx = toks[q + 1][0]
                    if nx in ("=", "+=", "-=", "*=", "/=", "<<", "++", "--", "<<=", ">>=", "|=", "&=", "^=") or \
                       (nx in (".", "->") and q + 2 < b and re.match(r"set|noalias|resize|fill|swap|push|emplace|insert|clear|assign|operator", toks[q + 2][0])) or \
                       (nx in ("(", "[") and _assigned_after_index(toks, q + 1, b)):
                        s["assigned_later"] = True
                if toks[q][0] == nm and toks[q - 1][0] == "&" and toks[q - 2][0] in ("(", ",", "="):
                    s["address_taken"] = True
    for s in statics:
        if "_init" in s:                                               # class / namespace level
            x, y = s.pop("_init"); s["_calls"] = calls_in(toks, x, y); s.pop("_end", None)
        s.pop("_func", None)
    # out-of-class definitions of class-level statics:  T Class<..>::name = init;
    for s in statics:
        if s["scope"] == "class" and not s["init_in_decl"]:
            for q in range(n):
                if toks[q][0] == s["name"] and q >= 2 and toks[q - 1][0] == "::" and q + 1 < n and toks[q + 1][0] in ("=", "{", "(", ";"):
                    # only at namespace scope statements (cheap test: the statement does not start inside a function)
                    if toks[q + 1][0] != ";":
                        s["init_in_decl"] = True; s["init"] = "out_of_class_definition"
                        e = q
                        while e < n and toks[e][0] != ";": e += 1
                        s["_calls"] = calls_in(toks, q + 1, e)
                    else:
                        s["init"] = "out_of_class_definition_without_initialiser"
    return funcs, statics, problems, classes

def _assigned_after_index(toks, q, b):
    """x(i,j) = ... or x[i] = ..."""
    d = 0
    while q < b:
        if toks[q][0] in ("(", "["): d += 1
        elif toks[q][0] in (")", "]"):
            d -= 1
            if d == 0: return q + 1 < b and toks[q + 1][0] in ("=", "+=", "-=", "*=", "/=")
        q += 1
    return False

def scan(repo=None):
    repo = repo or REPO
    root = os.path.join(repo, "include", "manif")
    files = sorted(glob.glob(os.path.join(root, "**", "*.h"), recursive=True))
    funcs = []; statics = []; problems = []; classes = set()
    for p in files:
        rel = os.path.relpath(p, os.path.join(repo, "include"))
        f, s, pr, cl = scan_file(p, rel)
        funcs += f; statics += s; problems += pr; classes |= cl
    by_simple = {}
    for f in funcs: by_simple.setdefault(f.simple, []).append(f)
    classes_base = {re.sub(r"<.*", "", c).split("::")[-1] for c in classes}

    def resolve(call, ctx):
        quals, name, member = call
        if name in KEYWORDS: return []
        cands = by_simple.get(name, [])
        if not cands: return []
        if quals:
            q = quals[-1]
            if q in EXTERNAL_QUALS or quals[0] in ("Eigen", "std", "tl", "ceres", "autodiff"): return []
            if q in classes_base:
                return [f for f in cands if re.sub(r"<.*", "", f.cls).split("::")[-1] == q]
            return cands                                              # typedef / template parameter: any class
        if not member and ctx is not None:
            same = [f for f in cands if f.cls == ctx.cls and f.file == ctx.file]
            if same: return same
        return cands

    def own_id(s): return "%s:%s::%s" % (s["file"], s["function"], s["name"])
    owners = {f.key: f for f in funcs}

    def expand(calls, f):
        """expand local lambdas"""
        out = []
        for c in calls:
            if f is not None and not c[0] and c[1] in getattr(f, "lambda_calls", {}):
                out += f.lambda_calls[c[1]]
            else:
                out.append(c)
        return out

    func_of = {}
    for f in funcs:
        for s in f.statics: func_of[id(s)] = f
    for s in statics:
        f = func_of.get(id(s))
        calls = expand(s.pop("_calls", []), f)
        # precise: through thin wrappers only
        deps = set(); seen = set()
        def follow(cs, ctx, depth):
            for c in cs:
                for g in resolve(c, ctx):
                    if g.key in seen and depth > 0: continue
                    seen.add(g.key)
                    if g is f and depth == 0 and not c[0] and not c[2]: continue
                    if g.statics:
                        for t in g.statics:
                            if t is not s: deps.add(own_id(t))
                    elif g.nstmts <= 1 and depth < 4:
                        follow(expand(g.calls, g), g, depth + 1)
        follow(calls, f, 0)
        # over-approximation: whole bodies, any depth
        reach = set(); seenr = set(); work = [(c, f) for c in calls]
        while work:
            c, ctx = work.pop()
            for g in resolve(c, ctx):
                if g.key in seenr: continue
                seenr.add(g.key)
                for t in g.statics:
                    reach.add(own_id(t))
                work += [(c2, g) for c2 in expand(g.calls, g)]
        s["id"] = own_id(s)
        s["deps"] = sorted(deps)
        s["reach"] = sorted(reach)
        s["calls"] = sorted({("::".join(c[0]) + "::" if c[0] else ("." if c[2] else "")) + c[1] for c in calls})
    statics.sort(key=lambda s: (s["file"], s["line"]))
    # cycles
    def cycles(field):
        g = {s["id"]: s[field] for s in statics}; found = []
        color = {}
        def dfs(u, path):
            color[u] = 1
            for v in g.get(u, []):
                if color.get(v) == 1: found.append(path[path.index(v):] + [v] if v in path else [u, v])
                elif v not in color: dfs(v, path + [v])
            color[u] = 2
        for u in sorted(g):
            if u not in color: dfs(u, [u])
        return found
    return dict(statics=statics, problems=problems, cycles=cycles("deps"), cycles_over_approx=cycles("reach"),
                files=len(files), functions=len(funcs))

COMPARE = ("file", "function", "name", "scope", "const", "init_in_decl", "assigned_later", "deps")
def compare(table, baseline):
    """-> list of (description, json_line) for everything that makes the model stop describing the code"""
    out = []
    base = {s["id"]: s for s in baseline["statics"]}
    cur = {s["id"]: s for s in table["statics"]}
    for s in table["statics"]:
        why = []
        if not s["const"]: why.append("is not const")
        if not s["init_in_decl"]: why.append("is declared without initialiser (assigned later: a write on every call)")
        if s["assigned_later"]: why.append("is written after its declaration")
        if s.get("address_taken"): why.append("has its address taken")
        if s["scope"] == "macro": why.append("is declared inside a macro (not analysed)")
        b = base.get(s["id"])
        if b is None:
            why.append("is not in the baseline table spec/StaticInitData.json (the model has no static for it)")
        else:
            diff = [k for k in COMPARE if s.get(k) != b.get(k)]
            if diff: why.append("differs from the baseline in " + ", ".join("%s: %r -> %r" % (k, b.get(k), s.get(k)) for k in diff))
        if why:
            out.append(("static %s (%s:%d) %s" % (s["id"], s["file"], s["line"], "; ".join(why)),
                        json.dumps({"e": "static", "p": "C14", "g": {"k": "scan"}, "static": {k: v for k, v in s.items() if k != "reach"}, "why": why})))
    for i, b in base.items():
        if i not in cur:
            out.append(("static %s of the baseline table is no longer in the headers (model constants are stale)" % i,
                        json.dumps({"e": "static_gone", "p": "C14", "g": {"k": "scan"}, "static": {k: v for k, v in b.items() if k != "reach"}})))
    for c in table["cycles"]:
        out.append(("dependency cycle between static initialisers: " + " -> ".join(c), json.dumps({"e": "static_cycle", "p": "C14", "g": {"k": "scan"}, "cycle": c})))
    bc = {json.dumps(c) for c in baseline.get("cycles_over_approx", [])}
    for c in table["cycles_over_approx"]:
        if json.dumps(c) not in bc:
            out.append(("possible dependency cycle (call graph by name): " + " -> ".join(c), json.dumps({"e": "static_cycle", "p": "C14", "g": {"k": "scan"}, "cycle": c, "over_approx": True})))
    for p in table["problems"]:
        out.append(("scanner could not parse: " + p, json.dumps({"e": "scan_problem", "p": "C14", "g": {"k": "scan"}, "what": p})))
    return out

def main():
    import argparse
    ap = argparse.ArgumentParser()
    ap.add_argument("--repo", default=REPO)
    ap.add_argument("--write-baseline", action="store_true")
    ap.add_argument("--compare", action="store_true")
    a = ap.parse_args()
    t = scan(a.repo)
    if a.write_baseline:
        old = json.load(open(BASELINE)) if os.path.exists(BASELINE) else {}
        t["model"] = old.get("model", {})                              # hand-written annotations are kept
        oc = {s["id"]: s.get("model_class") for s in old.get("statics", [])}
        for s in t["statics"]: s["model_class"] = oc.get(s["id"], "?")
        with open(BASELINE, "w") as f: json.dump(t, f, indent=1, sort_keys=True)
        print("wrote %s: %d statics" % (BASELINE, len(t["statics"])))
        return 0
    if a.compare:
        d = compare(t, json.load(open(BASELINE)))
        for what, _ in d: print(what)
        return 1 if d else 0
    print(json.dumps(t, indent=1, sort_keys=True))
    return 0

if __name__ == "__main__":
    sys.exit(main())
