"""Shared machinery for the /verif checks: content-addressed builds against /repo's working tree,
TLC runs (plan enumeration, exhaustive models, trace validation in parallel shards), verdicts with
known findings, evidence files."""
import hashlib, json, os, subprocess, sys, time, shutil, glob, re, concurrent.futures as cf

ROOT = os.path.dirname(os.path.dirname(os.path.abspath(__file__)))
REPO = os.environ.get("VERIF_REPO", "/repo")
SPEC = os.path.join(ROOT, "spec")
HARN = os.path.join(ROOT, "harness")
CACHE = os.path.join(ROOT, ".cache")
JAR = "/opt/veriftools/tla/tla2tools.jar"
CMJAR = "/opt/veriftools/tla/CommunityModules-deps.jar"
CLASSES = os.path.join(ROOT, "java", "classes")
NCPU = int(os.environ.get("VERIF_JOBS", "16"))
SAT = 2000000000

GROUP_TYPES = {
    "SO2": "manif::SO2<{s}>", "SE2": "manif::SE2<{s}>", "SO3": "manif::SO3<{s}>", "SE3": "manif::SE3<{s}>",
    "SE_2_3": "manif::SE_2_3<{s}>", "SGal3": "manif::SGal3<{s}>",
    "R1": "manif::Rn<{s},1>", "R2": "manif::Rn<{s},2>", "R3": "manif::Rn<{s},3>", "R5": "manif::Rn<{s},5>",
}
# bundle keys of the algorithm recorders (C15, C16 and the tangent vector-space events): the same names as Strata.tla GroupsB
BUNDLE_KEYS = {"B1": ["SE2", "SO3", "R3"], "B2": ["SO2", "SE_2_3", "R1"]}
def is_bundle_key(key):
    return key.rsplit("_", 1)[0] in BUNDLE_KEYS
def key_type(key):
    g, s = key.rsplit("_", 1)
    sc = {"d": "double", "f": "float"}[s]
    if g in BUNDLE_KEYS:
        return "manif::Bundle<%s, %s>" % (sc, ", ".join(GROUP_TYPES[k].split("<")[0] if not k.startswith("R") else "manif::" + k for k in BUNDLE_KEYS[g]))
    return GROUP_TYPES[g].format(s=sc)

# ------------------------------------------------------------------------------------------------
def sh(cmd, **kw):
    return subprocess.run(cmd, shell=isinstance(cmd, str), stdout=subprocess.PIPE, stderr=subprocess.STDOUT,
                          universal_newlines=True, **kw)

_repo_hash = None
def repo_hash():
    """hash of every file under /repo/include and /repo/external (what the recorders compile against)"""
    global _repo_hash
    if _repo_hash is None:
        h = hashlib.sha256()
        for base in ("include", "external/tl"):
            for dp, dn, fn in sorted(os.walk(os.path.join(REPO, base))):
                dn.sort()
                for f in sorted(fn):
                    p = os.path.join(dp, f)
                    h.update(p.encode()); h.update(open(p, "rb").read())
        _repo_hash = h.hexdigest()
    return _repo_hash

def file_hash(paths):
    h = hashlib.sha256()
    for p in paths:
        h.update(p.encode()); h.update(open(p, "rb").read())
    return h.hexdigest()

BASE_FLAGS = ["-std=c++11", "-O1", "-ffp-contract=off", "-w", "-I" + os.path.join(REPO, "include"),
              "-I" + os.path.join(REPO, "external", "tl"), "-I/usr/include/eigen3", "-I" + HARN]

def build(tag, src, defs=(), flags=(), compiler="g++", deps=()):
    """compile harness source `src` (relative to harness/) into a cached binary; returns (path, log) --
    path is None when compilation fails"""
    srcp = os.path.join(HARN, src)
    hdrs = sorted(glob.glob(os.path.join(HARN, "*.h"))) + [os.path.join(HARN, d) for d in deps]
    key = hashlib.sha256((repo_hash() + file_hash([srcp] + hdrs) + compiler + " ".join(defs) + " ".join(flags)).encode()).hexdigest()[:24]
    d = os.path.join(CACHE, "bin", key)
    out = os.path.join(d, tag)
    if os.path.exists(out):
        return out, ""
    os.makedirs(d, exist_ok=True)
    cmd = [compiler] + BASE_FLAGS + list(flags) + ["-D" + x for x in defs] + [srcp, "-o", out + ".tmp"]
    r = sh(cmd)
    if r.returncode != 0:
        return None, r.stdout
    os.rename(out + ".tmp", out)
    return out, r.stdout

def build_many(jobs):
    """jobs: list of dict(tag, src, defs, flags, compiler) -> dict tag -> (path, log)"""
    res = {}
    with cf.ThreadPoolExecutor(NCPU) as ex:
        futs = {ex.submit(build, j["tag"], j["src"], j.get("defs", ()), j.get("flags", ()), j.get("compiler", "g++"), j.get("deps", ())): j["tag"] for j in jobs}
        for f in cf.as_completed(futs):
            res[futs[f]] = f.result()
    return res

def build_core(keys, src="rec_core.cpp", extra_flags=(), extra_defs=(), prefix="rec_core"):
    bflags = ["-std=c++14", "-include", os.path.join(HARN, "rec_bundle.h")]
    jobs = [dict(tag="%s_%s" % (prefix, k), src=src, defs=["REC_GROUP=" + key_type(k), 'REC_KEY="%s"' % k] + (["REC_IS_BUNDLE"] if is_bundle_key(k) else []) + list(extra_defs),
                 flags=list(extra_flags) + (bflags if is_bundle_key(k) else [])) for k in keys]
    res = build_many(jobs)
    bad = {t: l for t, (p, l) in res.items() if p is None}
    if bad:
        for t, l in bad.items():
            sys.stderr.write("BUILD FAILED %s\n%s\n" % (t, l[-3000:]))
        raise BuildError(bad)
    return {k: res["%s_%s" % (prefix, k)][0] for k in keys}

class BuildError(Exception):
    pass
class ModelError(Exception):
    pass

# ------------------------------------------------------------------------------------------------
def ensure_java():
    if not os.path.exists(os.path.join(CLASSES, "verifov", "FixOv.class")) or \
       os.path.getmtime(os.path.join(CLASSES, "verifov", "FixOv.class")) < os.path.getmtime(os.path.join(ROOT, "java", "src", "verifov", "FixOv.java")):
        os.makedirs(CLASSES, exist_ok=True)
        r = sh(["javac", "-cp", JAR, "-d", CLASSES] + glob.glob(os.path.join(ROOT, "java", "src", "verifov", "*.java")))
        if r.returncode != 0:
            raise ModelError("javac failed:\n" + r.stdout)

_md = [0]
def tlc(module, cfg=None, env=None, workers=1, timeout=1800, overrides=True, extra=(), heap="3g", cwd=SPEC):
    """run TLC on spec/<module>.tla; returns (returncode, stdout)"""
    ensure_java()
    _md[0] += 1
    md = os.path.join(CACHE, "tlc", "%d_%d_%s" % (os.getpid(), _md[0], module))
    os.makedirs(md, exist_ok=True)
    cmd = ["timeout", str(timeout), "java", "-XX:+UseParallelGC", "-Xss64m", "-Xmx" + heap]
    if overrides:
        cmd.append("-Dtlc2.overrides.TLCOverrides=tlc2.overrides.TLCOverrides:verifov.Ov")
    cmd += ["-cp", ":".join([JAR, CMJAR, CLASSES]), "tlc2.TLC", "-workers", str(workers), "-metadir", md,
            "-config", cfg or (module + ".cfg")] + list(extra) + [module + ".tla"]
    e = dict(os.environ); e.update(env or {})
    r = subprocess.run(cmd, cwd=cwd, env=e, stdout=subprocess.PIPE, stderr=subprocess.STDOUT, universal_newlines=True)
    shutil.rmtree(md, ignore_errors=True)
    return r.returncode, r.stdout

def tlc_stats(out):
    m = re.search(r"(\d+) states generated, (\d+) distinct states found", out)
    return (int(m.group(2)), int(m.group(1))) if m else (0, 0)

def printed_json(out):
    """lines printed by PrintT(ToJson(x)): a JSON string literal containing JSON"""
    res = []
    for line in out.splitlines():
        if line.startswith('"') and line.endswith('"'):
            try:
                res.append(json.loads(json.loads(line)))
            except Exception:
                pass
    return res

def plan_cells(prop, tier):
    rc, out = tlc("Strata", env={"PROP": prop, "TIER": tier}, overrides=False, timeout=300)
    cells = printed_json(out)
    st = tlc_stats(out)
    if rc != 0 or not cells:
        raise ModelError("Strata plan generation failed for %s:\n%s" % (prop, out[-2000:]))
    cells.sort(key=lambda c: json.dumps(c, sort_keys=True))
    return cells, st

PLAN_FIELDS = ["op", "key", "prop", "thc", "linc", "hemi", "dir", "thc2", "linc2", "jac", "reps"]
def write_plan(cells, path):
    with open(path, "w") as f:
        for c in cells:
            f.write(" ".join(str(c[k]) for k in PLAN_FIELDS) + "\n")

def workdir(prop):
    """scratch directory of this run (unique per process so that concurrent runs of the same check do not collide);
    removed at exit"""
    import atexit
    d = os.path.join(CACHE, "work", "%s_%d" % (prop, os.getpid()))
    shutil.rmtree(d, ignore_errors=True)
    os.makedirs(d)
    if not os.environ.get("VERIF_KEEP_WORK"): atexit.register(lambda: shutil.rmtree(d, ignore_errors=True))
    return d

TERMINATE = '{"e":"terminate"}'

def record(bins, plan_path, wd, seed, timeout=900):
    """run each recorder binary on the plan; returns list of (key, [event lines])"""
    def one(k):
        outp = os.path.join(wd, "trace_%s.ndjson" % k)
        r = sh(["timeout", str(timeout), bins[k], plan_path, outp, str(seed)])
        lines = open(outp).read().splitlines() if os.path.exists(outp) else []
        rc = r.returncode
        if any(TERMINATE in l for l in lines):
            # std::terminate inside the recorder (uncaught exception / failed assertion inside manif): the handler appends the marker
            # to whatever was being written and exits 0; report it as an abort and keep only the complete events before it
            rc = rc or 134
            lines = [l for l in lines if TERMINATE not in l and l.endswith("}")]
        return k, rc, r.stdout, lines
    res = []
    with cf.ThreadPoolExecutor(NCPU) as ex:
        for k, rc, so, lines in ex.map(one, sorted(bins)):
            res.append((k, rc, so, lines))
    return res

def validate(lines, wd, module="ManifTrace", nshards=None, timeout=3000, env=None):
    """validate event lines (strings) in parallel shards; returns list of per-event dicts
    {line, ev(str), theta, lin, items} plus tlc stats; raises ModelError when a shard is not accepted"""
    if not lines:
        return [], (0, 0)
    n = nshards or min(NCPU, max(1, len(lines) // 40))
    # interleave so that expensive groups spread over shards
    shards = [lines[i::n] for i in range(n)]
    def one(i):
        p = os.path.join(wd, "shard_%s_%d.ndjson" % (module, i))
        with open(p, "w") as f:
            f.write("\n".join(shards[i]) + "\n")
        e = {"TRACE": p}; e.update(env or {})
        rc, out = tlc(module, env=e, timeout=timeout)
        return i, rc, out
    results = []; states = 0; trans = 0
    with cf.ThreadPoolExecutor(n) as ex:
        outs = list(ex.map(one, range(n)))
    for i, rc, out in outs:
        vs = [v for v in printed_json(out) if isinstance(v, list) and v and v[0] == "V"]
        s, t = tlc_stats(out); states += s; trans += t
        if rc != 0 or len(vs) != len(shards[i]) or "Model checking completed. No error has been found" not in out:
            raise ModelError("trace shard %d of %s not accepted by TLC (rc=%d, %d/%d events consumed):\n%s" %
                             (i, module, rc, len(vs), len(shards[i]), out[-3000:]))
        for v in vs:
            results.append(dict(ev=shards[i][v[1] - 1], theta=v[2], lin=v[3], gap=v[4], items=[(a, b) for a, b in v[5]]))
    return results, (states, trans)

def validate_shard(lines, wd, module, idx, timeout=3000, env=None):
    """validate one shard of event lines sequentially (order preserved: stateful trace specs)"""
    p = os.path.join(wd, "shard_%s_%d.ndjson" % (module, idx))
    with open(p, "w") as f: f.write("\n".join(lines) + "\n")
    e = {"TRACE": p}; e.update(env or {})
    rc, out = tlc(module, env=e, timeout=timeout)
    vs = [v for v in printed_json(out) if isinstance(v, list) and v and v[0] == "V"]
    if rc != 0 or len(vs) != len(lines) or "Model checking completed. No error has been found" not in out:
        raise ModelError("trace shard %d of %s not accepted by TLC (rc=%d, %d/%d events consumed):\n%s" % (idx, module, rc, len(vs), len(lines), out[-3000:]))
    res = [dict(ev=lines[v[1] - 1], theta=v[2], lin=v[3], gap=v[4], items=[(a, b) for a, b in v[5]]) for v in vs]
    return res, tlc_stats(out)

# ------------------------------------------------------------------------------------------------
def load_known():
    p = os.path.join(ROOT, "known_findings.json")
    if not os.path.exists(p):
        return []
    return [k for k in json.load(open(p)).get("findings", [])]

def bucket(x):
    """3-octave bucket of a floor(log2) class; None for 'not applicable'"""
    if x is None or x >= 99999 or x <= -99999: return None
    return x // 3

def _in(v, spec):
    if spec in (None, "*"): return True
    if isinstance(spec, list): return v in spec
    return v == spec

def match_known(known, prop, head, item, ratio, theta, lin, gap=99999):
    """a finding covers an out-of-tolerance item only if the event lies inside the finding's input predicate
    AND the error ratio is within the bound recorded for the finding (possibly a law in theta / pi-theta)"""
    for k in known:
        if k["property"] != prop: continue
        if not _in((head.get("g") or {}).get("k") if isinstance(head.get("g"), dict) else head.get("g"), k.get("group")): continue
        if not _in(head.get("sc"), k.get("scalar")): continue
        if not _in(head["e"], k.get("event")): continue
        if not _in(item, k.get("item")): continue
        if "theta_log2" in k and not (k["theta_log2"][0] <= theta <= k["theta_log2"][1]): continue
        if "lin_log2" in k and not (k["lin_log2"][0] <= lin <= k["lin_log2"][1]): continue
        if "gap_log2" in k and not (k["gap_log2"][0] <= gap <= k["gap_log2"][1]): continue
        if "stratum" in k and not re.search(k["stratum"], head.get("st", "")): continue
        bound = k.get("max_ratio_milli", SAT)
        if "envelope" in k:
            # measured error envelope of the defect: bound per (group, scalar, event, item, theta bucket, gap bucket)
            key = "|".join([str((head.get("g") or {}).get("k") if isinstance(head.get("g"), dict) else head.get("g")), str(head.get("sc")), head["e"], item, str(bucket(theta)), str(bucket(gap))])
            if key not in k["envelope"]: continue
            bound = k["envelope"][key]
        law = k.get("law")     # error bound that scales with the input
        if law == "c/theta": bound = k["c_milli"] * 2.0 ** (-theta)
        elif law == "c/theta2": bound = k["c_milli"] * 2.0 ** (-2 * theta)
        elif law == "c/theta3": bound = k["c_milli"] * 2.0 ** (-3 * theta)
        elif law == "c/theta4": bound = k["c_milli"] * 2.0 ** (-4 * theta)
        elif law == "c/gap": bound = k["c_milli"] * 2.0 ** (-gap)
        if ratio > bound and ratio < SAT: continue
        if ratio >= SAT and bound < SAT / 4: continue
        return k
    return None

def ev_head(line):
    """cheap header extraction of an event line (avoid parsing big arrays twice)"""
    return json.loads(line)

class Report:
    def __init__(self, prop, tier, seed):
        self.prop, self.tier, self.seed = prop, tier, seed
        self.t0 = time.time()
        self.violations = []     # (what, event line)
        self.known_hits = {}     # id -> count, worst
        self.states = 0; self.transitions = 0; self.traces = 0; self.events = 0
        self.cells = set(); self.samples = []; self.notes = []; self.assumptions = []
        self.worst = {}          # (e, g, item) -> max ratio
        self.extra = {}
        self.exhaustive = False
        self.known = load_known()
        self.calib = {}
        self.over = {}

    def judge(self, results, judged):
        """results from validate(); judged(event_kind, item) -> bool selects the items this property decides"""
        for r in results:
            h = json.loads(r["ev"])
            self.events += 1
            gk = h["g"].get("k", "?") if isinstance(h.get("g"), dict) else "?"
            cell = (h["e"], gk, h.get("sc"), max(-60, r["theta"] // 3) if r["theta"] > -99999 else h.get("st", ""), max(-40, r["lin"] // 5) if r["lin"] > -99999 else "z")
            self.cells.add(cell)
            if len(self.samples) < 3 and self.events % 97 == 1:
                self.samples.append({"event": h["e"], "group": h.get("g"), "stratum": h.get("st"), "ratios_milli": dict(r["items"]), "config": {k: h[k] for k in ("N", "d", "k", "closed") if k in h},
                                     "input_bits": {k: h[k] for k in ("a", "t") if k in h}})
            for item, ratio in r["items"]:
                if not judged(h["e"], item): continue
                wk = (h["e"], gk + "_" + str(h.get("sc")), item)
                if ratio > self.worst.get(wk, -1): self.worst[wk] = ratio
                stc = h.get("st", "").split(",")
                ck = (h["e"], gk + "_" + str(h.get("sc")), item, stc[1] if len(stc) > 1 else "", stc[2] if len(stc) > 2 else "")
                if ratio > self.calib.get(ck, -1): self.calib[ck] = ratio
                if ratio <= 1000: continue
                ok = (h["e"], gk, str(h.get("sc")), item, bucket(r["theta"]), bucket(r.get("gap", 99999)))
                if ratio > self.over.get(ok, 0): self.over[ok] = ratio
                k = match_known(self.known, self.prop, h, item, ratio, r["theta"], r["lin"], r.get("gap", 99999))
                if k is not None:
                    c = self.known_hits.setdefault(k["id"], [0, 0, k]); c[0] += 1; c[1] = max(c[1], ratio)
                else:
                    self.violations.append(("%s %s %s item=%s ratio=%.1f theta_log2=%s lin_log2=%s st=%s" %
                                            (h["e"], gk, h.get("sc"), item, ratio / 1000.0, r["theta"], r["lin"], h.get("st")) + (" gap_log2=%d" % r["gap"] if r.get("gap", 99999) != 99999 else ""), r["ev"]))

    def finish(self, rule, level="model_checking", extra_samples=None):
        """print verdict lines, write replay + evidence; returns exit code"""
        os.makedirs(os.path.join(ROOT, "evidence"), exist_ok=True)
        os.makedirs(os.path.join(ROOT, "replays"), exist_ok=True)
        for kid, (n, worst, k) in sorted(self.known_hits.items()):
            print("KNOWN-FINDING: property=%s %s [%s: %d events, worst ratio %.1f]" % (self.prop, k["text"], kid, n, worst / 1000.0))
        rc = 0
        if self.violations:
            rp = os.path.join(ROOT, "replays", "%s_seed%d_%s.ndjson" % (self.prop, self.seed, self.tier))
            with open(rp, "w") as f:
                for what, ev in self.violations[:500]:
                    f.write(ev + "\n")
            for what, ev in self.violations[:25]:
                print("  violation: " + what)
            if len(self.violations) > 25: print("  ... %d more" % (len(self.violations) - 25))
            print("VIOLATION property=%s replay=%s" % (self.prop, rp))
            rc = 1
        samples = (extra_samples or []) + self.samples
        if not samples: samples = [{"note": "no sample recorded"}]
        cov = {"states": max(1, self.states), "transitions": max(1, self.transitions),
               "traces_validated_against_impl": self.traces, "events_validated": self.events,
               "samples": samples[:6], "evaluations": max(1, self.events), "distinct_nontrivial": len(self.cells),
               "rule": rule, "exhaustive": self.exhaustive,
               "worst_ratio_milli": {"/".join(k): v for k, v in sorted(self.worst.items(), key=lambda kv: -kv[1])[:12]},
               "known_findings_hit": {k: v[0] for k, v in self.known_hits.items()}}
        cov.update(self.extra)
        ev = {"property_id": self.prop, "tier": self.tier, "seed": self.seed, "level": level, "coverage": cov,
              "assumptions": self.assumptions, "wall_s": round(time.time() - self.t0, 1), "violations": len(self.violations)}
        os.makedirs(os.path.join(CACHE, "calib"), exist_ok=True)
        with open(os.path.join(CACHE, "calib", "%s_%s.json" % (self.prop, self.tier)), "w") as f:
            json.dump([list(k) + [v] for k, v in sorted(self.calib.items())], f)
        if os.environ.get("VERIF_CALIB") == "1" and REPO == "/repo":
            # explicit calibration sweep on the real tree only (never from mutant / scratch-copy runs)
            os.makedirs(os.path.join(CACHE, "calib_official"), exist_ok=True)
            with open(os.path.join(CACHE, "calib_official", "%s_%s_seed%d_over.json" % (self.prop, self.tier, self.seed)), "w") as f:
                json.dump([list(k) + [v] for k, v in sorted(self.over.items(), key=str)], f)
        with open(os.path.join(ROOT, "evidence", self.prop + ".json"), "w") as f:
            json.dump(ev, f, indent=1)
        print("%s %s: %d events, %d cells, states=%d, %d violations, %d known-finding events, %.0fs" %
              (self.prop, self.tier, self.events, len(self.cells), self.states, len(self.violations),
               sum(v[0] for v in self.known_hits.values()), time.time() - self.t0))
        return rc
